(* Base64, standard alphabet with '=' padding (RFC 4648 section 4).
   - b64_encode              : the canonical encoder (what Go's StdEncoding.EncodeToString and
                               java.util.Base64.getEncoder() both produce);
   - b64_decode              : Go's base64.StdEncoding.DecodeString (non-strict): CR and LF are skipped
                               anywhere, padding is mandatory, the unused low bits of the last
                               character are NOT checked;
   - b64_decode_java         : java.util.Base64.getDecoder(): no character outside the alphabet is
                               tolerated, padding is optional, unused low bits are not checked either.
   Lemmas: both decoders invert the encoder; the encoder's output alphabet; the decoders are not
   injective (last-character slack).  Bytes are [list N]. *)
From Coq Require Import List NArith ZArith Bool Lia.
From Coq Require Import ZifyN ZifyNat ZifyBool.
From Verif Require Import Base.Hex.
Import ListNotations.
Open Scope N_scope.
Ltac Zify.zify_post_hook ::= Z.div_mod_to_equations.

(* ---------- alphabet ---------- *)

Definition enc_char (i : N) : N :=
  if i <? 26 then 65 + i            (* A-Z *)
  else if i <? 52 then 71 + i       (* a-z : 97 - 26 *)
  else if i <? 62 then i - 4        (* 0-9 : 48 - 52 *)
  else if i =? 62 then 43           (* + *)
  else 47.                          (* / *)

Definition dec_char (c : N) : option N :=
  if (65 <=? c) && (c <=? 90) then Some (c - 65)
  else if (97 <=? c) && (c <=? 122) then Some (c - 71)
  else if (48 <=? c) && (c <=? 57) then Some (c + 4)
  else if c =? 43 then Some 62
  else if c =? 47 then Some 63
  else None.

Definition pad : N := 61.   (* '=' *)

(* ---------- encoder ---------- *)

Fixpoint b64_encode (x : bytes) : bytes :=
  match x with
  | [] => []
  | [a] => [enc_char (a / 4); enc_char ((a mod 4) * 16); pad; pad]
  | [a; b] => [enc_char (a / 4); enc_char ((a mod 4) * 16 + b / 16); enc_char ((b mod 16) * 4); pad]
  | a :: b :: c :: r =>
    enc_char (a / 4) :: enc_char ((a mod 4) * 16 + b / 16) :: enc_char ((b mod 16) * 4 + c / 64)
    :: enc_char (c mod 64) :: b64_encode r
  end.

(* ---------- decoders ---------- *)

(* three bytes out of four 6-bit values *)
Definition quantum (v0 v1 v2 v3 : N) : bytes :=
  [v0 * 4 + v1 / 16; (v1 mod 16) * 16 + v2 / 4; (v2 mod 4) * 64 + v3].

(* groups of four over a string that no longer contains CR/LF; [unpadded] allows a final group of
   two or three characters without '=' (Java) *)
Fixpoint b64_groups (unpadded : bool) (fuel : nat) (s : bytes) : option bytes :=
  match fuel with
  | O => None
  | S f =>
    match s with
    | [] => Some []
    | [c0; c1; p2; p3] =>
      match dec_char c0, dec_char c1 with
      | Some v0, Some v1 =>
        if (p2 =? pad) && (p3 =? pad) then Some (firstn 1 (quantum v0 v1 0 0))
        else match dec_char p2 with
             | None => None
             | Some v2 =>
               if p3 =? pad then Some (firstn 2 (quantum v0 v1 v2 0))
               else match dec_char p3 with
                    | Some v3 => Some (quantum v0 v1 v2 v3)
                    | None => None
                    end
             end
      | _, _ => None
      end
    | c0 :: c1 :: c2 :: c3 :: r =>
      match dec_char c0, dec_char c1, dec_char c2, dec_char c3 with
      | Some v0, Some v1, Some v2, Some v3 =>
        match b64_groups unpadded f r with
        | Some t => Some (quantum v0 v1 v2 v3 ++ t)
        | None => None
        end
      | _, _, _, _ => None
      end
    | [c0; c1] =>
      if unpadded then
        match dec_char c0, dec_char c1 with
        | Some v0, Some v1 => Some (firstn 1 (quantum v0 v1 0 0))
        | _, _ => None
        end
      else None
    | [c0; c1; c2] =>
      if unpadded then
        match dec_char c0, dec_char c1, dec_char c2 with
        | Some v0, Some v1, Some v2 => Some (firstn 2 (quantum v0 v1 v2 0))
        | _, _, _ => None
        end
      else None
    | _ => None
    end
  end.

Definition is_crlf (c : N) : bool := (c =? 10) || (c =? 13).

(* Go: encoding/base64 Encoding.DecodeString with StdEncoding (padding '=', strict = false) *)
Definition b64_decode (s : bytes) : option bytes :=
  let t := filter (fun c => negb (is_crlf c)) s in
  b64_groups false (S (length t)) t.

(* Java: Base64.getDecoder().decode *)
Definition b64_decode_java (s : bytes) : option bytes := b64_groups true (S (length s)) s.

(* ---------- alphabet lemmas ---------- *)

Lemma dec_enc_char i : i < 64 -> dec_char (enc_char i) = Some i.
Proof.
  intro H. unfold enc_char, dec_char.
  destruct (N.ltb_spec i 26).
  { replace ((65 <=? 65 + i) && (65 + i <=? 90)) with true by lia. f_equal. lia. }
  destruct (N.ltb_spec i 52).
  { replace ((65 <=? 71 + i) && (71 + i <=? 90)) with false by lia.
    replace ((97 <=? 71 + i) && (71 + i <=? 122)) with true by lia. f_equal. lia. }
  destruct (N.ltb_spec i 62).
  { replace ((65 <=? i - 4) && (i - 4 <=? 90)) with false by lia.
    replace ((97 <=? i - 4) && (i - 4 <=? 122)) with false by lia.
    replace ((48 <=? i - 4) && (i - 4 <=? 57)) with true by lia. f_equal. lia. }
  destruct (N.eqb_spec i 62) as [->|]; [reflexivity|].
  assert (i = 63) by lia. subst. reflexivity.
Qed.

Lemma enc_char_not_special i : i < 64 ->
  enc_char i <> pad /\ is_crlf (enc_char i) = false /\ enc_char i <> 0 /\ enc_char i <> 33 /\ enc_char i <> 58 /\ enc_char i < 128.
Proof.
  intro H. unfold enc_char, pad, is_crlf.
  destruct (N.ltb_spec i 26); [lia|].
  destruct (N.ltb_spec i 52); [lia|].
  destruct (N.ltb_spec i 62); [lia|].
  destruct (N.eqb_spec i 62); cbn; lia.
Qed.

Lemma dec_char_lt64 c v : dec_char c = Some v -> v < 64.
Proof.
  unfold dec_char.
  destruct ((65 <=? c) && (c <=? 90)) eqn:E1; [intro H; inversion H; lia|].
  destruct ((97 <=? c) && (c <=? 122)) eqn:E2; [intro H; inversion H; lia|].
  destruct ((48 <=? c) && (c <=? 57)) eqn:E3; [intro H; inversion H; lia|].
  destruct (c =? 43); [intro H; inversion H; lia|].
  destruct (c =? 47); [intro H; inversion H; lia|discriminate].
Qed.

Lemma dec_char_pad : dec_char pad = None.
Proof. reflexivity. Qed.

(* ---------- induction three at a time ---------- *)

Lemma list_ind3 {A} (P : list A -> Prop) :
  P [] -> (forall a, P [a]) -> (forall a b, P [a; b]) ->
  (forall a b c r, P r -> P (a :: b :: c :: r)) -> forall l, P l.
Proof.
  intros H0 H1 H2 H3.
  assert (H : forall l, P l /\ (forall a, P (a :: l)) /\ (forall a b, P (a :: b :: l))).
  { induction l as [|x l (IH0 & IH1 & IH2)].
    - repeat split; auto.
    - repeat split; auto. }
  intro l. apply H.
Qed.

(* ---------- round trips ---------- *)

Lemma quantum_roundtrip a b c : a < 256 -> b < 256 -> c < 256 ->
  quantum (a / 4) ((a mod 4) * 16 + b / 16) ((b mod 16) * 4 + c / 64) (c mod 64) = [a; b; c].
Proof. intros. unfold quantum. repeat f_equal; lia. Qed.

Lemma quantum_roundtrip2 a b : a < 256 -> b < 256 ->
  firstn 2 (quantum (a / 4) ((a mod 4) * 16 + b / 16) ((b mod 16) * 4) 0) = [a; b].
Proof. intros. unfold quantum. cbn [firstn]. repeat f_equal; lia. Qed.

Lemma quantum_roundtrip1 a : a < 256 ->
  firstn 1 (quantum (a / 4) ((a mod 4) * 16) 0 0) = [a].
Proof. intros. unfold quantum. cbn [firstn]. repeat f_equal; lia. Qed.

Lemma b64_encode_length x : length (b64_encode x) = (4 * ((length x + 2) / 3))%nat.
Proof.
  induction x as [| a | a b | a b c r IH] using list_ind3; try reflexivity.
  change (b64_encode (a :: b :: c :: r)) with
    (enc_char (a / 4) :: enc_char ((a mod 4) * 16 + b / 16) :: enc_char ((b mod 16) * 4 + c / 64)
     :: enc_char (c mod 64) :: b64_encode r).
  cbn [length]. rewrite IH.
  replace (S (S (S (length r))) + 2)%nat with (1 * 3 + (length r + 2))%nat by lia.
  rewrite Nat.div_add_l by lia. lia.
Qed.

Lemma b64_groups_encode unp : forall x f, wf_bytes x -> (length (b64_encode x) < f)%nat ->
  b64_groups unp f (b64_encode x) = Some x.
Proof.
  induction x as [| a | a b | a b c r IH] using list_ind3; intros f W Hf.
  - destruct f; [cbn in Hf; lia|reflexivity].
  - destruct f; [cbn in Hf; lia|]. inversion W as [|? ? Ha _]; subst.
    cbn [b64_encode b64_groups].
    rewrite !dec_enc_char by lia. rewrite !N.eqb_refl. cbn [andb].
    rewrite quantum_roundtrip1 by lia. reflexivity.
  - destruct f; [cbn in Hf; lia|]. inversion W as [|? ? Ha W']; subst. inversion W' as [|? ? Hb _]; subst.
    cbn [b64_encode b64_groups].
    rewrite !dec_enc_char by lia. rewrite N.eqb_refl.
    destruct (enc_char_not_special ((b mod 16) * 4)) as (Hp & _); [lia|].
    rewrite (proj2 (N.eqb_neq _ _) Hp). cbn [andb].
    rewrite quantum_roundtrip2 by lia. reflexivity.
  - destruct f; [cbn in Hf; lia|].
    inversion W as [|? ? Ha W1]; subst. inversion W1 as [|? ? Hb W2]; subst. inversion W2 as [|? ? Hc W3]; subst.
    change (b64_encode (a :: b :: c :: r)) with
      (enc_char (a / 4) :: enc_char ((a mod 4) * 16 + b / 16) :: enc_char ((b mod 16) * 4 + c / 64)
       :: enc_char (c mod 64) :: b64_encode r) in *.
    cbn [length] in Hf.
    destruct (b64_encode r) as [|y t] eqn:ER.
    + (* r = [] : last full group, parsed by the four-character case *)
      assert (r = []).
      { destruct r as [|r0 [|r1 [|r2 r']]]; [reflexivity|discriminate ER..]. }
      subst r. cbn [b64_groups].
      rewrite !dec_enc_char by lia.
      destruct (enc_char_not_special ((b mod 16) * 4 + c / 64)) as (Hp2 & _); [lia|].
      destruct (enc_char_not_special (c mod 64)) as (Hp3 & _); [lia|].
      rewrite (proj2 (N.eqb_neq _ _) Hp2), (proj2 (N.eqb_neq _ _) Hp3). cbn [andb].
      rewrite quantum_roundtrip by lia. reflexivity.
    + cbn [b64_groups]. rewrite !dec_enc_char by lia.
      rewrite IH by (try assumption; cbn [length] in *; lia).
      rewrite quantum_roundtrip by lia. reflexivity.
Qed.

(* the encoder's output: alphabet characters and '=' only; in particular no CR/LF, NUL, '!' or ':' *)
Definition b64_char (c : N) : Prop :=
  is_crlf c = false /\ c <> 0 /\ c <> 33 /\ c <> 58 /\ c < 128.

Lemma b64_encode_chars x : wf_bytes x -> Forall b64_char (b64_encode x).
Proof.
  assert (HP : b64_char pad) by (unfold b64_char, pad, is_crlf; cbn; lia).
  assert (HE : forall i, i < 64 -> b64_char (enc_char i)).
  { intros i Hi. destruct (enc_char_not_special i Hi) as (_ & ? & ? & ? & ? & ?). repeat split; assumption. }
  induction x as [| a | a b | a b c r IH] using list_ind3; intro W.
  - constructor.
  - inversion W as [|? ? Ha _]; subst. cbn [b64_encode].
    repeat (apply Forall_cons; [first [exact HP | apply HE; lia]|]). apply Forall_nil.
  - inversion W as [|? ? Ha W']; subst. inversion W' as [|? ? Hb _]; subst. cbn [b64_encode].
    repeat (apply Forall_cons; [first [exact HP | apply HE; lia]|]). apply Forall_nil.
  - inversion W as [|? ? Ha W1]; subst. inversion W1 as [|? ? Hb W2]; subst. inversion W2 as [|? ? Hc W3]; subst.
    change (b64_encode (a :: b :: c :: r)) with
      (enc_char (a / 4) :: enc_char ((a mod 4) * 16 + b / 16) :: enc_char ((b mod 16) * 4 + c / 64)
       :: enc_char (c mod 64) :: b64_encode r).
    repeat (apply Forall_cons; [apply HE; lia|]). apply IH. exact W3.
Qed.

Lemma filter_id {A} (p : A -> bool) l : Forall (fun x => p x = true) l -> filter p l = l.
Proof.
  induction 1 as [|x l Hx Hl IH]; [reflexivity|]. cbn [filter]. rewrite Hx, IH. reflexivity.
Qed.

Theorem b64_decode_encode x : wf_bytes x -> b64_decode (b64_encode x) = Some x.
Proof.
  intro W. unfold b64_decode.
  rewrite filter_id.
  - apply b64_groups_encode; [exact W|lia].
  - eapply Forall_impl; [|apply b64_encode_chars; exact W].
    intros c (Hc & _). rewrite Hc. reflexivity.
Qed.

Theorem b64_decode_java_encode x : wf_bytes x -> b64_decode_java (b64_encode x) = Some x.
Proof. intro W. unfold b64_decode_java. apply b64_groups_encode; [exact W|lia]. Qed.

Corollary b64_encode_inj x y : wf_bytes x -> wf_bytes y -> b64_encode x = b64_encode y -> x = y.
Proof.
  intros Wx Wy E. pose proof (b64_decode_encode x Wx) as Hx. rewrite E, (b64_decode_encode y Wy) in Hx.
  inversion Hx. reflexivity.
Qed.

(* the slack: "QQ==" and "QR==" both decode to "A" (Go and Java alike) *)
Theorem b64_malleable : exists x x' : bytes, x <> x' /\ b64_decode x = b64_decode x' /\ b64_decode x <> None
  /\ b64_decode_java x = b64_decode_java x'.
Proof.
  exists [81; 81; 61; 61], [81; 82; 61; 61]. split; [discriminate|]. vm_compute. repeat split. discriminate.
Qed.

(* RFC 4648 section 10 vectors, and Go-specific behaviour *)
Example b64_vectors :
  b64_encode [102] = [90; 103; 61; 61] /\ b64_encode [102; 111] = [90; 109; 56; 61] /\
  b64_encode [102; 111; 111] = [90; 109; 57; 118] /\
  b64_encode [102; 111; 111; 98; 97; 114] = [90; 109; 57; 118; 89; 109; 70; 121] /\
  b64_decode [90; 109; 57; 118; 89; 109; 70; 121] = Some [102; 111; 111; 98; 97; 114] /\
  b64_decode [90; 10; 103; 61; 13; 61; 10] = Some [102] /\        (* CR/LF skipped everywhere *)
  b64_decode [90; 103] = None /\ b64_decode_java [90; 103] = Some [102] /\   (* missing padding *)
  b64_decode [90; 103; 61] = None /\ b64_decode [90; 103; 61; 61; 90] = None /\
  b64_decode [90; 61; 61; 61] = None /\ b64_decode [61] = None /\ b64_decode [] = Some [] /\
  b64_decode_java [90; 10; 103; 61; 61] = None.
Proof. vm_compute. repeat split; reflexivity. Qed.
