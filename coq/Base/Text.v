(* Text as Go sees it: UTF-8 byte strings <-> code points, and per-code-point lower casing.

   - [utf8_decode] follows Go's utf8.DecodeRune / `for _, r := range s`: every byte that does not
     start a well-formed, shortest-form, non-surrogate sequence <= U+10FFFF becomes ONE U+FFFD and
     decoding resumes at the next byte.
   - [utf8_encode] follows utf8.AppendRune / strings.Builder.WriteRune: surrogates and values above
     U+10FFFF are written as U+FFFD.
   - [lower_cp] is unicode.ToLower restricted to the blocks listed in [lower_covered]; outside of
     them it is the identity and NOT claimed to agree with Go (e.g. Latin Extended, U+0130).
   - [go_to_lower] = strings.ToLower on a byte string: Go has an ASCII fast path and otherwise
     strings.Map(unicode.ToLower, s), which re-encodes every rune and therefore turns each invalid
     byte into EF BF BD.  Both paths equal encode (map lower (decode s)).

   Executable definitions first, then a few lemmas.  Code points and bytes are N.            *)
From Coq Require Import List NArith Bool Lia.
Import ListNotations.
Open Scope N_scope.

Definition rune_error : N := 65533.   (* U+FFFD *)

Definition is_cont (b : N) : bool := (128 <=? b) && (b <=? 191).
Definition in_rng (lo hi b : N) : bool := (lo <=? b) && (b <=? hi).

(* Go's utf8 first-byte table: number of bytes of the sequence and the accepted range of the
   SECOND byte (the remaining continuation bytes are always 80..BF).  0 = invalid first byte. *)
Definition first_info (b0 : N) : N * N * N :=
  if b0 <? 128 then (1, 0, 0)
  else if b0 <? 194 then (0, 0, 0)             (* 80..C1: continuation bytes and overlong C0/C1 *)
  else if b0 <? 224 then (2, 128, 191)         (* C2..DF *)
  else if b0 =? 224 then (3, 160, 191)         (* E0: no overlong *)
  else if b0 =? 237 then (3, 128, 159)         (* ED: no surrogates *)
  else if b0 <? 240 then (3, 128, 191)         (* E1..EC, EE, EF *)
  else if b0 =? 240 then (4, 144, 191)         (* F0: no overlong *)
  else if b0 <? 244 then (4, 128, 191)         (* F1..F3 *)
  else if b0 =? 244 then (4, 128, 143)         (* F4: <= U+10FFFF *)
  else (0, 0, 0).

Fixpoint utf8_decode (bs : list N) : list N :=
  match bs with
  | [] => []
  | b0 :: r =>
      let '(n, lo, hi) := first_info b0 in
      if n =? 1 then b0 :: utf8_decode r
      else if n =? 2 then
        match r with
        | b1 :: r1 =>
            if in_rng lo hi b1 then ((b0 - 192) * 64 + (b1 - 128)) :: utf8_decode r1
            else rune_error :: utf8_decode r
        | _ => rune_error :: utf8_decode r
        end
      else if n =? 3 then
        match r with
        | b1 :: (b2 :: r2) as r1 =>
            if in_rng lo hi b1 && is_cont b2
            then ((b0 - 224) * 4096 + (b1 - 128) * 64 + (b2 - 128)) :: utf8_decode r2
            else rune_error :: utf8_decode r
        | _ => rune_error :: utf8_decode r
        end
      else if n =? 4 then
        match r with
        | b1 :: (b2 :: (b3 :: r3) as r2) as r1 =>
            if in_rng lo hi b1 && is_cont b2 && is_cont b3
            then ((b0 - 240) * 262144 + (b1 - 128) * 4096 + (b2 - 128) * 64 + (b3 - 128)) :: utf8_decode r3
            else rune_error :: utf8_decode r
        | _ => rune_error :: utf8_decode r
        end
      else rune_error :: utf8_decode r
  end.

Definition is_surrogate (c : N) : bool := (55296 <=? c) && (c <=? 57343).
Definition valid_cp (c : N) : bool := (c <=? 1114111) && negb (is_surrogate c).

Definition encode_cp (c0 : N) : list N :=
  let c := if valid_cp c0 then c0 else rune_error in
  if c <? 128 then [c]
  else if c <? 2048 then [192 + c / 64; 128 + c mod 64]
  else if c <? 65536 then [224 + c / 4096; 128 + (c / 64) mod 64; 128 + c mod 64]
  else [240 + c / 262144; 128 + (c / 4096) mod 64; 128 + (c / 64) mod 64; 128 + c mod 64].

Definition utf8_encode (cs : list N) : list N := flat_map encode_cp cs.

(* ---------- lower casing ---------- *)

(* blocks in which [lower_cp] is claimed to equal Go's unicode.ToLower (validated by the
   harnesses that use it, code point by code point) *)
Definition lower_covered (c : N) : bool :=
  (c <? 256)                                   (* ASCII + Latin-1 *)
  || in_rng 913 969 c                          (* Greek capital/small Alpha..Omega, U+0391..U+03C9 *)
  || in_rng 1024 1119 c                        (* Cyrillic U+0400..U+045F *)
  || in_rng 12352 12543 c                      (* Hiragana, Katakana: caseless *)
  || in_rng 19968 40959 c                      (* CJK unified ideographs: caseless *)
  || in_rng 128512 128591 c                    (* emoticons: caseless *)
  || (c =? rune_error).

Definition lower_cp (c : N) : N :=
  if in_rng 65 90 c then c + 32                                    (* A-Z *)
  else if in_rng 192 222 c && negb (c =? 215) then c + 32          (* Latin-1 capitals, not U+00D7 *)
  else if in_rng 913 939 c && negb (c =? 930) then c + 32          (* Greek capitals, U+03A2 unassigned *)
  else if in_rng 1024 1039 c then c + 80                           (* Cyrillic U+0400..U+040F *)
  else if in_rng 1040 1071 c then c + 32                           (* Cyrillic U+0410..U+042F *)
  else c.

Definition lower_cps (cs : list N) : list N := map lower_cp cs.

(* strings.ToLower on bytes *)
Definition go_to_lower (bs : list N) : list N := utf8_encode (lower_cps (utf8_decode bs)).

Definition is_ascii (bs : list N) : bool := forallb (fun b => b <? 128) bs.

(* ---------- lemmas ---------- *)

Lemma utf8_decode_ascii bs : is_ascii bs = true -> utf8_decode bs = bs.
Proof.
  induction bs as [|b r IH]; simpl; intro H; [reflexivity|].
  apply andb_true_iff in H. destruct H as [Hb Hr].
  unfold first_info. rewrite Hb. simpl. now rewrite IH.
Qed.

Lemma utf8_encode_ascii cs : is_ascii cs = true -> utf8_encode cs = cs.
Proof.
  induction cs as [|c r IH]; simpl; intro H; [reflexivity|].
  apply andb_true_iff in H. destruct H as [Hc Hr].
  unfold utf8_encode in *. simpl. rewrite (IH Hr).
  unfold encode_cp. apply N.ltb_lt in Hc.
  assert (Hv : valid_cp c = true).
  { unfold valid_cp, is_surrogate. apply andb_true_iff. split.
    - apply N.leb_le. lia.
    - apply negb_true_iff, andb_false_iff. left. apply N.leb_gt. lia. }
  rewrite Hv. assert (Hl : (c <? 128) = true) by (apply N.ltb_lt; lia). now rewrite Hl.
Qed.

Lemma lower_cp_ascii c : c <? 128 = true -> lower_cp c <? 128 = true.
Proof.
  intro H. apply N.ltb_lt in H. unfold lower_cp, in_rng.
  destruct ((65 <=? c) && (c <=? 90)) eqn:E1.
  - apply andb_true_iff in E1. destruct E1 as [_ E]. apply N.leb_le in E. apply N.ltb_lt. lia.
  - assert (E2 : (192 <=? c) = false) by (apply N.leb_gt; lia).
    assert (E3 : (913 <=? c) = false) by (apply N.leb_gt; lia).
    assert (E4 : (1024 <=? c) = false) by (apply N.leb_gt; lia).
    assert (E5 : (1040 <=? c) = false) by (apply N.leb_gt; lia).
    rewrite E2, E3, E4, E5. simpl. apply N.ltb_lt. lia.
Qed.

(* On ASCII strings strings.ToLower is the byte-wise map (Go's fast path). *)
Lemma go_to_lower_ascii bs : is_ascii bs = true -> go_to_lower bs = map lower_cp bs.
Proof.
  intro H. unfold go_to_lower, lower_cps. rewrite (utf8_decode_ascii bs H).
  apply utf8_encode_ascii. unfold is_ascii in *. rewrite forallb_forall in *.
  intros x Hx. apply in_map_iff in Hx. destruct Hx as [y [<- Hy]]. apply lower_cp_ascii. auto.
Qed.

(* sanity vectors: "Aä€😀" = 41 C3A4 E282AC F09F9880; invalid bytes one U+FFFD each; overlong and
   surrogate encodings are invalid byte by byte *)
Example utf8_vectors :
  utf8_decode [65; 195; 164; 226; 130; 172; 240; 159; 152; 128] = [65; 228; 8364; 128512]
  /\ utf8_encode [65; 228; 8364; 128512] = [65; 195; 164; 226; 130; 172; 240; 159; 152; 128]
  /\ utf8_decode [255; 65; 195] = [65533; 65; 65533]
  /\ utf8_decode [192; 128] = [65533; 65533]
  /\ utf8_decode [237; 160; 128] = [65533; 65533; 65533]
  /\ utf8_decode [226; 130; 65] = [65533; 65533; 65]
  /\ go_to_lower [65; 255; 195; 132] = [97; 239; 191; 189; 195; 164].
Proof. vm_compute. repeat split; reflexivity. Qed.
