(* Reference protobuf wire-format parser, written from the protobuf encoding specification
   (protobuf.dev/programming-guides/encoding), NOT from Go's protowire package:

     message  := (tag value)*            tag := varint (field_number << 3 | wire_type)
     varint   := little-endian base-128 groups, continuation bit 0x80, at most 10 bytes, value < 2^64
     wire types: 0 VARINT, 1 I64 (8 bytes), 2 LEN (varint length + payload), 3 SGROUP, 4 EGROUP,
                 5 I32 (4 bytes); 6 and 7 do not exist
     a group is the sequence of fields up to the EGROUP tag carrying the same field number.

   Two implementation limits are parameters of a real parser and are stated here:
     - field numbers: 1 .. max_field_number (2^31-1: what fits a signed 32-bit field number; the
       schema-level limit 2^29-1 is a property of .proto files, not of the wire format);
     - group nesting: at most [limit] groups inside one another.
   Executable definitions first, then the lemmas shared by users (lengths decrease, fuel irrelevance). *)
From Coq Require Import List NArith ZArith Bool Lia.
From Coq Require Import ZifyN ZifyNat ZifyBool.
From Verif Require Import Base.Hex.
Import ListNotations.
Open Scope N_scope.

(* ---------- varint: recursive value form ---------- *)

(* value of at most n bytes: first byte holds the LEAST significant 7 bits *)
Fixpoint rvarint (n : nat) (b : bytes) : option (N * bytes) :=
  match n with
  | O => None
  | S n' =>
    match b with
    | [] => None
    | x :: r =>
      if x <? 128 then Some (x, r)
      else match rvarint n' r with
           | None => None
           | Some (v, r') => Some ((x - 128) + 128 * v, r')
           end
    end
  end.

Definition two64 : N := 18446744073709551616.

Definition ref_varint (b : bytes) : option (N * bytes) :=
  match rvarint 10 b with
  | Some (v, r) => if v <? two64 then Some (v, r) else None
  | None => None
  end.

(* ---------- tags ---------- *)

Definition max_field_number : N := 2147483647.

(* (field number, wire type, rest) *)
Definition ref_tag (b : bytes) : option (N * N * bytes) :=
  match ref_varint b with
  | None => None
  | Some (v, r) =>
    let num := v / 8 in
    if (1 <=? num) && (num <=? max_field_number) then Some (num, v mod 8, r) else None
  end.

(* ---------- values ---------- *)

Inductive wval :=
| WVarint (v : N)
| WI64 (b : bytes)
| WLen (b : bytes)
| WGroup (fs : list (N * wval))
| WI32 (b : bytes).

Definition wfield := (N * wval)%type.

Definition wire_type (v : wval) : N :=
  match v with WVarint _ => 0 | WI64 _ => 1 | WLen _ => 2 | WGroup _ => 3 | WI32 _ => 5 end.

Definition take (n : nat) (b : bytes) : option (bytes * bytes) :=
  if Nat.ltb (length b) n then None else Some (firstn n b, skipn n b).

Definition ref_len (b : bytes) : option (bytes * bytes) :=
  match ref_varint b with
  | None => None
  | Some (m, r) => if N.of_nat (length r) <? m then None else take (N.to_nat m) r
  end.

(* result of parsing a field sequence: the fields, how it ended (None = end of input,
   Some n = an EGROUP tag with field number n, already consumed), and what follows *)
Definition seqres := (list wfield * option N * bytes)%type.

Definition parse_value (rec : N -> bytes -> option seqres) (depth num wt : N) (r : bytes)
  : option (wval * bytes) :=
  if wt =? 0 then match ref_varint r with Some (v, r') => Some (WVarint v, r') | None => None end
  else if wt =? 1 then match take 8 r with Some (p, r') => Some (WI64 p, r') | None => None end
  else if wt =? 2 then match ref_len r with Some (p, r') => Some (WLen p, r') | None => None end
  else if wt =? 3 then
    if depth =? 0 then None
    else match rec (depth - 1) r with
         | Some (fs, Some e, r') => if e =? num then Some (WGroup fs, r') else None
         | _ => None
         end
  else if wt =? 5 then match take 4 r with Some (p, r') => Some (WI32 p, r') | None => None end
  else None.

(* recursive descent; fuel = an upper bound on the input length plus one (see parse_fields_fuel) *)
Fixpoint parse_fields (fuel : nat) (depth : N) (b : bytes) : option seqres :=
  match fuel with
  | O => None
  | S f =>
    match b with
    | [] => Some ([], None, [])
    | _ :: _ =>
      match ref_tag b with
      | None => None
      | Some (num, wt, r) =>
        if wt =? 4 then Some ([], Some num, r)
        else match parse_value (parse_fields f) depth num wt r with
             | None => None
             | Some (v, r') =>
               match parse_fields f depth r' with
               | None => None
               | Some (fs, t, r'') => Some ((num, v) :: fs, t, r'')
               end
             end
      end
    end
  end.

(* a whole message: every field parsed, input exhausted, no stray EGROUP *)
Definition ref_message (limit : N) (u : bytes) : option (list wfield) :=
  match parse_fields (S (length u)) limit u with
  | Some (fs, None, _) => Some fs
  | _ => None
  end.

(* ---------- scalar decoding of varint-typed fields (spec: int32/int64/enum take the low bits,
   two's complement) ---------- *)

Definition ref_int64 (v : N) : Z := ((Z.of_N v + 2 ^ 63) mod 2 ^ 64 - 2 ^ 63)%Z.
Definition ref_int32 (v : N) : Z := ((Z.of_N v + 2 ^ 31) mod 2 ^ 32 - 2 ^ 31)%Z.

(* ---------- lemmas: rests are suffix-shorter ---------- *)

Lemma rvarint_shorter n : forall b v r, rvarint n b = Some (v, r) -> (length r < length b)%nat.
Proof.
  induction n as [|n IH]; intros b v r H; [discriminate|].
  cbn [rvarint] in H. destruct b as [|x b]; [discriminate|].
  destruct (x <? 128).
  - inversion H; subst. cbn [length]. lia.
  - destruct (rvarint n b) as [[v' r']|] eqn:E; [|discriminate].
    inversion H; subst. apply IH in E. cbn [length]. lia.
Qed.

Lemma ref_varint_shorter b v r : ref_varint b = Some (v, r) -> (length r < length b)%nat.
Proof.
  unfold ref_varint. destruct (rvarint 10 b) as [[v' r']|] eqn:E; [|discriminate].
  destruct (v' <? two64); [|discriminate]. intro H; inversion H; subst.
  eapply rvarint_shorter; eassumption.
Qed.

Lemma ref_tag_shorter b num wt r : ref_tag b = Some (num, wt, r) -> (length r < length b)%nat.
Proof.
  unfold ref_tag. destruct (ref_varint b) as [[v r']|] eqn:E; [|discriminate].
  destruct ((1 <=? v / 8) && (v / 8 <=? max_field_number)); [|discriminate].
  intro H; inversion H; subst. eapply ref_varint_shorter; eassumption.
Qed.

Lemma take_shorter n b p r : take n b = Some (p, r) -> (length r <= length b)%nat.
Proof.
  unfold take. destruct (Nat.ltb (length b) n); [discriminate|].
  intro H; inversion H; subst. rewrite skipn_length. lia.
Qed.

Lemma ref_len_shorter b p r : ref_len b = Some (p, r) -> (length r < length b)%nat.
Proof.
  unfold ref_len. destruct (ref_varint b) as [[m r']|] eqn:E; [|discriminate].
  destruct (N.of_nat (length r') <? m); [discriminate|].
  intro H. apply take_shorter in H. apply ref_varint_shorter in E. lia.
Qed.

(* ---------- parse_fields: the rest is no longer than the input; fuel above the length is irrelevant ---------- *)

Lemma parse_value_shorter rec d num wt r v r1 :
  (forall d' fs t r', rec d' r = Some (fs, t, r') -> (length r' <= length r)%nat) ->
  parse_value rec d num wt r = Some (v, r1) -> (length r1 <= length r)%nat.
Proof.
  intros Hrec EV. unfold parse_value in EV.
  destruct (wt =? 0).
  { destruct (ref_varint r) as [[v' r']|] eqn:E; [|discriminate]. inversion EV; subst.
    apply ref_varint_shorter in E. lia. }
  destruct (wt =? 1).
  { destruct (take 8 r) as [[p r']|] eqn:E; [|discriminate]. inversion EV; subst.
    eapply take_shorter; eassumption. }
  destruct (wt =? 2).
  { destruct (ref_len r) as [[p r']|] eqn:E; [|discriminate]. inversion EV; subst.
    apply ref_len_shorter in E. lia. }
  destruct (wt =? 3).
  { destruct (d =? 0); [discriminate|].
    destruct (rec (d - 1) r) as [[[fs' [e|]] r']|] eqn:E; try discriminate.
    destruct (e =? num); [|discriminate]. inversion EV; subst. eapply Hrec; eassumption. }
  destruct (wt =? 5); [|discriminate].
  destruct (take 4 r) as [[p r']|] eqn:E; [|discriminate]. inversion EV; subst.
  eapply take_shorter; eassumption.
Qed.

Lemma parse_fields_shorter : forall f d b fs t r,
  parse_fields f d b = Some (fs, t, r) -> (length r <= length b)%nat.
Proof.
  induction f as [|f IH]; intros d b fs t r H; [discriminate|].
  cbn [parse_fields] in H. destruct b as [|x b]; [inversion H; subst; cbn; lia|].
  destruct (ref_tag (x :: b)) as [[[num wt] r0]|] eqn:ET; [|discriminate].
  pose proof (ref_tag_shorter _ _ _ _ ET) as L0.
  destruct (wt =? 4); [inversion H; subst; lia|].
  destruct (parse_value (parse_fields f) d num wt r0) as [[v r1]|] eqn:EV; [|discriminate].
  assert (L1 : (length r1 <= length r0)%nat).
  { eapply parse_value_shorter; [|exact EV]. intros; eapply IH; eassumption. }
  destruct (parse_fields f d r1) as [[[fs' t'] r2]|] eqn:EC; [|discriminate].
  inversion H; subst. apply IH in EC. lia.
Qed.

Lemma parse_value_ext rec1 rec2 d num wt r :
  (forall d' , rec1 d' r = rec2 d' r) ->
  parse_value rec1 d num wt r = parse_value rec2 d num wt r.
Proof.
  intro E. unfold parse_value. rewrite E. reflexivity.
Qed.

Lemma parse_fields_fuel : forall f g d b,
  (length b < f)%nat -> (length b < g)%nat -> parse_fields f d b = parse_fields g d b.
Proof.
  induction f as [|f IH]; intros g d b Hf Hg; [lia|].
  destruct g as [|g]; [lia|].
  cbn [parse_fields]. destruct b as [|x b]; [reflexivity|].
  destruct (ref_tag (x :: b)) as [[[num wt] r0]|] eqn:ET; [|reflexivity].
  pose proof (ref_tag_shorter _ _ _ _ ET) as L0.
  destruct (wt =? 4); [reflexivity|].
  rewrite (parse_value_ext (parse_fields f) (parse_fields g)) by (intro; apply IH; lia).
  destruct (parse_value (parse_fields g) d num wt r0) as [[v r1]|] eqn:EV; [|reflexivity].
  assert (L1 : (length r1 <= length r0)%nat).
  { eapply parse_value_shorter; [|exact EV]. intros; eapply parse_fields_shorter; eassumption. }
  rewrite (IH g d r1) by lia. reflexivity.
Qed.

(* ---------- every parser returns a suffix of its input (so well-formedness of bytes is inherited) ---------- *)

Definition suffix (r b : bytes) : Prop := exists p, b = p ++ r.

Lemma suffix_refl b : suffix b b.
Proof. exists []. reflexivity. Qed.

Lemma suffix_trans a b c : suffix a b -> suffix b c -> suffix a c.
Proof. intros [p ->] [q ->]. exists (q ++ p). rewrite app_assoc. reflexivity. Qed.

Lemma suffix_cons x r b : suffix r b -> suffix r (x :: b).
Proof. intros [p ->]. exists (x :: p). reflexivity. Qed.

Lemma suffix_wf r b : suffix r b -> wf_bytes b -> wf_bytes r.
Proof. intros [p ->] W. unfold wf_bytes in *. apply Forall_app in W. tauto. Qed.

Lemma suffix_length r b : suffix r b -> (length r <= length b)%nat.
Proof. intros [p ->]. rewrite app_length. lia. Qed.

Lemma rvarint_suffix n : forall b v r, rvarint n b = Some (v, r) -> suffix r b.
Proof.
  induction n as [|n IH]; intros b v r H; [discriminate|].
  cbn [rvarint] in H. destruct b as [|x b]; [discriminate|].
  destruct (x <? 128).
  - inversion H; subst. apply suffix_cons, suffix_refl.
  - destruct (rvarint n b) as [[v' r']|] eqn:E; [|discriminate].
    inversion H; subst. apply suffix_cons. eapply IH; eassumption.
Qed.

Lemma ref_varint_suffix b v r : ref_varint b = Some (v, r) -> suffix r b.
Proof.
  unfold ref_varint. destruct (rvarint 10 b) as [[v' r']|] eqn:E; [|discriminate].
  destruct (v' <? two64); [|discriminate]. intro H; inversion H; subst.
  eapply rvarint_suffix; eassumption.
Qed.

Lemma ref_tag_suffix b num wt r : ref_tag b = Some (num, wt, r) -> suffix r b.
Proof.
  unfold ref_tag. destruct (ref_varint b) as [[v r']|] eqn:E; [|discriminate].
  destruct ((1 <=? v / 8) && (v / 8 <=? max_field_number)); [|discriminate].
  intro H; inversion H; subst. eapply ref_varint_suffix; eassumption.
Qed.

Lemma take_suffix n b p r : take n b = Some (p, r) -> suffix r b.
Proof.
  unfold take. destruct (Nat.ltb (length b) n); [discriminate|].
  intro H; inversion H; subst. exists (firstn n b). symmetry. apply firstn_skipn.
Qed.

Lemma ref_len_suffix b p r : ref_len b = Some (p, r) -> suffix r b.
Proof.
  unfold ref_len. destruct (ref_varint b) as [[m r']|] eqn:E; [|discriminate].
  destruct (N.of_nat (length r') <? m); [discriminate|].
  intro H. apply take_suffix in H. apply ref_varint_suffix in E. eapply suffix_trans; eassumption.
Qed.

Lemma parse_value_suffix rec d num wt r v r1 :
  (forall d' fs t r', rec d' r = Some (fs, t, r') -> suffix r' r) ->
  parse_value rec d num wt r = Some (v, r1) -> suffix r1 r.
Proof.
  intros Hrec EV. unfold parse_value in EV.
  destruct (wt =? 0).
  { destruct (ref_varint r) as [[v' r']|] eqn:E; [|discriminate]. inversion EV; subst.
    eapply ref_varint_suffix; eassumption. }
  destruct (wt =? 1).
  { destruct (take 8 r) as [[p r']|] eqn:E; [|discriminate]. inversion EV; subst.
    eapply take_suffix; eassumption. }
  destruct (wt =? 2).
  { destruct (ref_len r) as [[p r']|] eqn:E; [|discriminate]. inversion EV; subst.
    eapply ref_len_suffix; eassumption. }
  destruct (wt =? 3).
  { destruct (d =? 0); [discriminate|].
    destruct (rec (d - 1) r) as [[[fs' [e|]] r']|] eqn:E; try discriminate.
    destruct (e =? num); [|discriminate]. inversion EV; subst. eapply Hrec; eassumption. }
  destruct (wt =? 5); [|discriminate].
  destruct (take 4 r) as [[p r']|] eqn:E; [|discriminate]. inversion EV; subst.
  eapply take_suffix; eassumption.
Qed.

Lemma parse_fields_suffix : forall f d b fs t r,
  parse_fields f d b = Some (fs, t, r) -> suffix r b.
Proof.
  induction f as [|f IH]; intros d b fs t r H; [discriminate|].
  cbn [parse_fields] in H. destruct b as [|x b]; [inversion H; subst; apply suffix_refl|].
  destruct (ref_tag (x :: b)) as [[[num wt] r0]|] eqn:ET; [|discriminate].
  pose proof (ref_tag_suffix _ _ _ _ ET) as L0.
  destruct (wt =? 4); [inversion H; subst; exact L0|].
  destruct (parse_value (parse_fields f) d num wt r0) as [[v r1]|] eqn:EV; [|discriminate].
  assert (L1 : suffix r1 r0).
  { eapply parse_value_suffix; [|exact EV]. intros; eapply IH; eassumption. }
  destruct (parse_fields f d r1) as [[[fs' t'] r2]|] eqn:EC; [|discriminate].
  inversion H; subst. apply IH in EC.
  eapply suffix_trans; [exact EC|]. eapply suffix_trans; eassumption.
Qed.

(* the wire type recorded in a parsed value is the one of its tag *)
Lemma parse_value_wire_type rec d num wt r v r1 :
  parse_value rec d num wt r = Some (v, r1) -> wire_type v = wt.
Proof.
  unfold parse_value.
  destruct (N.eqb_spec wt 0) as [->|_].
  { destruct (ref_varint r) as [[? ?]|]; [|discriminate]. intro H; inversion H; reflexivity. }
  destruct (N.eqb_spec wt 1) as [->|_].
  { destruct (take 8 r) as [[? ?]|]; [|discriminate]. intro H; inversion H; reflexivity. }
  destruct (N.eqb_spec wt 2) as [->|_].
  { destruct (ref_len r) as [[? ?]|]; [|discriminate]. intro H; inversion H; reflexivity. }
  destruct (N.eqb_spec wt 3) as [->|_].
  { destruct (d =? 0); [discriminate|].
    destruct (rec (d - 1) r) as [[[fs' [e|]] r']|]; try discriminate.
    destruct (e =? num); [|discriminate]. intro H; inversion H; reflexivity. }
  destruct (N.eqb_spec wt 5) as [->|_]; [|discriminate].
  destruct (take 4 r) as [[? ?]|]; [|discriminate]. intro H; inversion H; reflexivity.
Qed.

(* ---------- sanity vectors (encoding guide examples) ---------- *)

(* 08 96 01 : field 1, varint 150 *)
Example ref_message_150 : ref_message 100 [8; 150; 1] = Some [(1, WVarint 150)].
Proof. vm_compute. reflexivity. Qed.
(* 12 07 "testing" : field 2, LEN *)
Example ref_message_testing :
  ref_message 100 [18; 7; 116; 101; 115; 116; 105; 110; 103] = Some [(2, WLen [116; 101; 115; 116; 105; 110; 103])].
Proof. vm_compute. reflexivity. Qed.
(* group 3 { field 1 varint 1 } then field 2 I32 *)
Example ref_message_group :
  ref_message 100 [27; 8; 1; 28; 21; 1; 2; 3; 4] = Some [(3, WGroup [(1, WVarint 1)]); (2, WI32 [1; 2; 3; 4])].
Proof. vm_compute. reflexivity. Qed.
(* unterminated group, mismatched end group, stray end group, wire type 6, field number 0, 11-byte varint *)
Example ref_message_bad :
  ref_message 100 [27; 8; 1] = None /\ ref_message 100 [27; 36] = None /\ ref_message 100 [28] = None /\
  ref_message 100 [14] = None /\ ref_message 100 [0; 0] = None /\
  ref_message 100 [8; 255; 255; 255; 255; 255; 255; 255; 255; 255; 1] = Some [(1, WVarint 18446744073709551615)] /\
  ref_message 100 [8; 255; 255; 255; 255; 255; 255; 255; 255; 255; 2] = None /\
  ref_message 100 [8; 128; 128; 128; 128; 128; 128; 128; 128; 128; 128; 0] = None.
Proof. vm_compute. repeat split; reflexivity. Qed.
(* nesting limit: 2 levels allowed, third rejected *)
Example ref_message_depth :
  ref_message 2 [11; 11; 12; 12] = Some [(1, WGroup [(1, WGroup [])])] /\ ref_message 2 [11; 11; 11; 12; 12; 12] = None.
Proof. vm_compute. repeat split; reflexivity. Qed.
