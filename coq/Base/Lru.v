(* A bounded least-recently-used map as an association list, most recently used first.
   It mirrors github.com/dboslee/lru v0.0.1 (Cache.Set / Get / Peek / Delete / Len / Flush):
     Set of a present key replaces the value and moves the entry to the front;
     Set of a new key pushes it in front and, if the length now exceeds the capacity,
       removes the entry at the back (the least recently used one);
     Get of a present key returns the value and moves the entry to the front; a miss changes nothing;
     Peek does not move; Delete removes.
   Capacity must be >= 1 for the correspondence (with capacity 0 the Go code keeps a dangling map
   entry for the element it just removed from the list; not modelled).
   Executable part first, then the facts other models need.  Keys are compared with a boolean
   equality that reflects Leibniz equality (a Section hypothesis, discharged at instantiation). *)
From Coq Require Import List Arith Bool Lia Permutation.
Import ListNotations.

Section Lru.
  Context {K V : Type} (eqb : K -> K -> bool).

  Definition lru : Type := list (K * V).

  Fixpoint find (k : K) (l : lru) : option V :=
    match l with
    | [] => None
    | (k', v) :: r => if eqb k k' then Some v else find k r
    end.

  Fixpoint remove (k : K) (l : lru) : lru :=
    match l with
    | [] => []
    | (k', v) :: r => if eqb k k' then remove k r else (k', v) :: remove k r
    end.

  Definition keys (l : lru) : list K := map fst l.
  Definition mem (k : K) (l : lru) : bool := match find k l with Some _ => true | None => false end.

  (* Cache.Set *)
  Definition set (cap : nat) (k : K) (v : V) (l : lru) : lru :=
    match find k l with
    | Some _ => (k, v) :: remove k l
    | None => let l' := (k, v) :: l in
              if cap <? length l' then removelast l' else l'
    end.

  (* Cache.Get *)
  Definition get (k : K) (l : lru) : option V * lru :=
    match find k l with
    | Some v => (Some v, (k, v) :: remove k l)
    | None => (None, l)
    end.

  (* Cache.Peek *)
  Definition peek (k : K) (l : lru) : option V := find k l.

  (* Cache.Delete *)
  Definition delete (k : K) (l : lru) : bool * lru := (mem k l, remove k l).

  (* ---------- facts ---------- *)

  Hypothesis eqb_spec : forall a b, reflect (a = b) (eqb a b).

  Lemma eqb_refl a : eqb a a = true.
  Proof. destruct (eqb_spec a a); congruence. Qed.

  Lemma eqb_neq a b : a <> b -> eqb a b = false.
  Proof. intros H. destruct (eqb_spec a b); congruence. Qed.

  Lemma find_remove_same k l : find k (remove k l) = None.
  Proof.
    induction l as [|[k' v] r IH]; simpl; auto.
    destruct (eqb k k') eqn:E; auto. simpl. now rewrite E.
  Qed.

  Lemma find_remove_other k k' l : k <> k' -> find k' (remove k l) = find k' l.
  Proof.
    intros Hn. induction l as [|[k0 v] r IH]; simpl; auto.
    destruct (eqb_spec k k0) as [->|Hk].
    - rewrite IH. now rewrite (eqb_neq k' k0) by congruence.
    - simpl. now rewrite IH.
  Qed.

  Lemma find_none_not_in k l : find k l = None <-> ~ In k (keys l).
  Proof.
    induction l as [|[k0 v] r IH]; simpl.
    - tauto.
    - destruct (eqb_spec k k0) as [->|Hk].
      + split; [discriminate|]. intros H. exfalso. apply H. now left.
      + rewrite IH. split.
        * intros H [E|Hin]; [congruence|auto].
        * intros H Hin. apply H. now right.
  Qed.

  Lemma remove_not_in k l : ~ In k (keys l) -> remove k l = l.
  Proof.
    induction l as [|[k0 v] r IH]; simpl; auto. intros H.
    rewrite (eqb_neq k k0) by (intros ->; apply H; now left).
    f_equal. apply IH. intros Hin. apply H. now right.
  Qed.

  Lemma keys_remove_incl k l x : In x (keys (remove k l)) -> In x (keys l) /\ x <> k.
  Proof.
    induction l as [|[k0 v] r IH]; simpl; [tauto|].
    destruct (eqb_spec k k0) as [->|Hk].
    - intros H. destruct (IH H). split; auto.
    - simpl. intros [<-|H]; [split; auto|]. destruct (IH H). split; auto.
  Qed.

  Lemma remove_length k l : length (remove k l) <= length l.
  Proof. induction l as [|[k0 v] r IH]; simpl; auto. destruct (eqb k k0); simpl; lia. Qed.

  Lemma remove_length_mem k l v :
    NoDup (keys l) -> find k l = Some v -> S (length (remove k l)) = length l.
  Proof.
    induction l as [|[k0 v0] r IH]; simpl; [discriminate|]. intros Hnd Hf.
    inversion Hnd as [|? ? Hnot Hnd']; subst.
    destruct (eqb_spec k k0) as [->|Hk].
    - now rewrite remove_not_in.
    - simpl. f_equal. auto.
  Qed.

  Lemma nodup_remove k l : NoDup (keys l) -> NoDup (keys (remove k l)).
  Proof.
    induction l as [|[k0 v] r IH]; simpl; auto. intros Hnd.
    inversion Hnd as [|? ? Hnot Hnd']; subst.
    destruct (eqb k k0); auto. simpl. constructor; auto.
    intros Hin. apply keys_remove_incl in Hin. tauto.
  Qed.

  (* the representation invariant: no key twice, never more than [cap] entries *)
  Definition wf (cap : nat) (l : lru) : Prop := NoDup (keys l) /\ length l <= cap.

  Lemma keys_removelast (l : lru) : keys (removelast l) = removelast (keys l).
  Proof.
    induction l as [|a r IH]; simpl; auto. destruct r as [|b r']; simpl in *; auto.
    now rewrite IH.
  Qed.

  Lemma nodup_removelast {A} (l : list A) : NoDup l -> NoDup (removelast l).
  Proof.
    induction l as [|a r IH]; simpl; auto. intros H. inversion H; subst.
    destruct r as [|b r']; [constructor|]. constructor; auto.
    intros Hin. apply H2. clear -Hin. revert Hin. generalize (b :: r') as m.
    induction m as [|c m IH]; simpl; [tauto|]. destruct m; simpl in *; [tauto|].
    intros [<-|Hin]; auto.
  Qed.

  Lemma removelast_length {A} (l : list A) : l <> [] -> S (length (removelast l)) = length l.
  Proof.
    induction l as [|a r IH]; [congruence|]. intros _. destruct r as [|b r']; auto.
    simpl in *. f_equal. apply IH. discriminate.
  Qed.

  Lemma wf_set cap k v l : 1 <= cap -> wf cap l -> wf cap (set cap k v l).
  Proof.
    intros Hc [Hnd Hlen]. unfold set. destruct (find k l) as [v0|] eqn:Ef.
    - split.
      + simpl. constructor; [|now apply nodup_remove].
        intros Hin. apply keys_remove_incl in Hin. tauto.
      + simpl. pose proof (remove_length_mem k l v0 Hnd Ef). lia.
    - assert (Hnd' : NoDup (keys ((k, v) :: l)))
        by (simpl; constructor; auto; now apply find_none_not_in).
      destruct (Nat.ltb_spec cap (length ((k, v) :: l))) as [Hgt|Hle].
      + split.
        * rewrite keys_removelast. now apply nodup_removelast.
        * pose proof (removelast_length ((k, v) :: l) ltac:(discriminate)). simpl in *. lia.
      + split; auto.
  Qed.

  Lemma wf_get cap k l : wf cap l -> wf cap (snd (get k l)).
  Proof.
    intros [Hnd Hlen]. unfold get. destruct (find k l) as [v|] eqn:Ef; simpl; [|split; auto].
    split.
    - constructor; [|now apply nodup_remove].
      intros Hin. apply keys_remove_incl in Hin. tauto.
    - pose proof (remove_length_mem k l v Hnd Ef). simpl. lia.
  Qed.

  Lemma wf_remove cap k l : wf cap l -> wf cap (remove k l).
  Proof.
    intros [Hnd Hlen]. split; [now apply nodup_remove|]. pose proof (remove_length k l). lia.
  Qed.

  Lemma wf_nil cap : wf cap [].
  Proof. split; [constructor|simpl; lia]. Qed.

  (* after Set the key is present with the new value *)
  Lemma find_set_same cap k v l : 1 <= cap -> find k (set cap k v l) = Some v.
  Proof.
    intros Hc. unfold set. destruct (find k l) eqn:Ef.
    - simpl. now rewrite eqb_refl.
    - destruct (Nat.ltb_spec cap (length ((k, v) :: l))); [|simpl; now rewrite eqb_refl].
      destruct l as [|a r]; [simpl in *; lia|].
      simpl. now rewrite eqb_refl.
  Qed.

  (* Get + Delete leaves the key absent and every other key as it was *)
  Lemma find_consume_same k l : find k (remove k (snd (get k l))) = None.
  Proof. apply find_remove_same. Qed.

  Lemma remove_get k l : remove k (snd (get k l)) = remove k l.
  Proof.
    unfold get. destruct (find k l) as [v|] eqn:Ef; simpl; auto.
    rewrite eqb_refl. clear Ef. induction l as [|[k0 v0] r IH]; simpl; auto.
    destruct (eqb k k0) eqn:E; auto. simpl. now rewrite E, IH.
  Qed.

  (* entries only disappear at the back: whatever is found after removelast was there before *)
  Lemma find_removelast_incl k (l : lru) x : find k (removelast l) = Some x -> find k l = Some x.
  Proof.
    induction l as [|[k0 v0] r IH]; simpl; [discriminate|].
    destruct r as [|b r']; [simpl; discriminate|].
    change (find k ((k0, v0) :: removelast (b :: r')) = Some x ->
            (if eqb k k0 then Some v0 else find k (b :: r')) = Some x).
    simpl find at 1. destruct (eqb k k0); auto.
  Qed.

  (* Set of k never makes another key appear *)
  Lemma find_set_other cap k v k' l x :
    k <> k' -> find k' (set cap k v l) = Some x -> find k' l = Some x.
  Proof.
    intros Hn. unfold set. destruct (find k l) eqn:Ef.
    - simpl. rewrite (eqb_neq k' k) by congruence. now rewrite find_remove_other.
    - destruct (cap <? length ((k, v) :: l)).
      + intros H. apply find_removelast_incl in H. simpl in H.
        now rewrite (eqb_neq k' k) in H by congruence.
      + simpl. now rewrite (eqb_neq k' k) by congruence.
  Qed.

  (* ---------- eviction: distinct new keys pushed onto an empty cache ---------- *)

  Fixpoint set_all (cap : nat) (kvs : list (K * V)) (l : lru) : lru :=
    match kvs with
    | [] => l
    | (k, v) :: r => set_all cap r (set cap k v l)
    end.

  Lemma removelast_firstn_len {A} (l : list A) : removelast l = firstn (length l - 1) l.
  Proof.
    induction l as [|a r IH]; simpl; auto. destruct r as [|b r']; simpl in *; auto.
    rewrite IH. now rewrite Nat.sub_0_r.
  Qed.

  Lemma firstn_firstn_min {A} (l : list A) n m : firstn n (firstn m l) = firstn (min n m) l.
  Proof. apply firstn_firstn. Qed.

  (* pushing a key that is not present onto a cache that holds the [cap] most recent of [hist]
     keeps that shape *)
  Lemma set_new_shape cap k v (hist : lru) :
    1 <= cap -> ~ In k (keys hist) ->
    set cap k v (firstn cap hist) = firstn cap ((k, v) :: hist).
  Proof.
    intros Hc Hnot. unfold set.
    assert (Hf : find k (firstn cap hist) = None).
    { apply find_none_not_in. intros Hin. apply Hnot. unfold keys in *.
      rewrite <- (firstn_skipn cap hist), map_app. apply in_or_app. now left. }
    rewrite Hf. destruct cap as [|c]; [lia|].
    destruct (Nat.ltb_spec (S c) (length ((k, v) :: firstn (S c) hist))) as [Hgt|Hle].
    - rewrite removelast_firstn_len.
      cbn [length] in Hgt. rewrite firstn_length in Hgt.
      assert (Hl : S c <= length hist) by lia.
      replace (length ((k, v) :: firstn (S c) hist) - 1) with (S c)
        by (cbn [length]; rewrite firstn_length; lia).
      change (firstn (S c) ((k, v) :: firstn (S c) hist)) with ((k, v) :: firstn c (firstn (S c) hist)).
      rewrite firstn_firstn. replace (min c (S c)) with c by lia. reflexivity.
    - cbn [length] in Hle. rewrite firstn_length in Hle.
      assert (Hl : length hist <= c) by lia.
      change (firstn (S c) ((k, v) :: hist)) with ((k, v) :: firstn c hist).
      f_equal. now rewrite !firstn_all2 by lia.
  Qed.

  (* recording distinct keys one after the other from empty leaves exactly the [cap] most recent *)
  Lemma set_all_distinct cap kvs :
    1 <= cap -> NoDup (map fst kvs) ->
    set_all cap kvs [] = firstn cap (rev kvs).
  Proof.
    intros Hc.
    assert (G : forall kvs hist, NoDup (map fst kvs ++ keys hist) ->
                set_all cap kvs (firstn cap hist) = firstn cap (rev kvs ++ hist)).
    { clear kvs. induction kvs as [|[k v] r IH]; intros hist Hnd; simpl; auto.
      simpl in Hnd. inversion Hnd as [|? ? Hnot Hnd']; subst.
      rewrite set_new_shape; auto.
      - rewrite IH.
        + now rewrite <- app_assoc.
        + simpl.
          apply (Permutation_NoDup (l := k :: (map fst r ++ keys hist))); auto.
          apply Permutation_middle.
      - intros Hin. apply Hnot. apply in_or_app. now right. }
    intros Hnd. specialize (G kvs []). simpl in G. rewrite firstn_nil in G.
    rewrite G; [now rewrite app_nil_r|]. now rewrite app_nil_r.
  Qed.
End Lru.
