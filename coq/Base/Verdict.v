(* Verdicts returned by every Check/CXX.v for one case; the driver parses the printed list. *)
From Coq Require Import List NArith.
Import ListNotations.

Inductive verdict :=
| VOk                    (* property predicate holds on the implementation's output and model agrees *)
| VKnown (k : N)         (* implementation shows recorded finding number k (known_findings.jsonl)      *)
| VMismatch              (* model and implementation disagree, property predicate not falsified        *)
| VViolation.            (* property predicate is false on the implementation's own output             *)

Definition is_ok (v : verdict) : bool := match v with VOk => true | _ => false end.

(* keep only the cases that need attention, tagged with their index *)
Fixpoint collect (i : N) (vs : list verdict) : list (N * verdict) :=
  match vs with
  | [] => []
  | v :: r => if is_ok v then collect (N.succ i) r else (i, v) :: collect (N.succ i) r
  end.

Definition report {C : Type} (judge : C -> verdict) (cs : list C) : N * list (N * verdict) :=
  (N.of_nat (length cs), collect 0 (map judge cs)).
