(* Bytes as lists of N (< 256) and the hex/ASCII string transports used by case files.
   The packed Uint63 transport lives in Base/Pack63.v so that theorem files never depend on primitive integers. *)
From Coq Require Import List NArith ZArith String Ascii Bool.
Import ListNotations.
Open Scope N_scope.
Open Scope bool_scope.

Definition bytes := list N.

Definition hexval (c : ascii) : N :=
  let n := N_of_ascii c in
  if (48 <=? n) && (n <=? 57) then n - 48
  else if (97 <=? n) && (n <=? 102) then n - 87
  else if (65 <=? n) && (n <=? 70) then n - 55
  else 0.

Fixpoint bytes_of_hex (s : string) : bytes :=
  match s with
  | String a (String b r) => (16 * hexval a + hexval b) :: bytes_of_hex r
  | _ => []
  end.
Definition hx := bytes_of_hex.

(* text as bytes: ASCII strings for readability in case files *)
Fixpoint bytes_of_string (s : string) : bytes :=
  match s with EmptyString => [] | String a r => N_of_ascii a :: bytes_of_string r end.
Definition tx := bytes_of_string.

Fixpoint beq_bytes (a b : bytes) : bool :=
  match a, b with
  | [], [] => true
  | x :: a', y :: b' => (x =? y) && beq_bytes a' b'
  | _, _ => false
  end.

Lemma beq_bytes_eq a : forall b, beq_bytes a b = true <-> a = b.
Proof.
  induction a as [|x a IH]; intros [|y b]; simpl; split; intro H; try congruence; try reflexivity.
  - apply Bool.andb_true_iff in H. destruct H as [H1 H2]. apply N.eqb_eq in H1. apply IH in H2. congruence.
  - inversion H; subst. rewrite N.eqb_refl. simpl. apply IH. reflexivity.
Qed.

Definition wf_bytes (bs : bytes) : Prop := Forall (fun b => b < 256) bs.
Definition wf_bytesb (bs : bytes) : bool := forallb (fun b => b <? 256) bs.
