(* JSON values, objects as association lists.

   Representation
   - numbers are kept as their literal text (bytes); a producer must canonicalise them
     (the Go harnesses print what encoding/json prints for the decoded float64 / json.Number);
   - strings and object keys are the DECODED bytes (UTF-8), never the escaped text;
   - objects are association lists in document order.  All look-ups use FIRST-binding
     semantics ([obj_get]); [obj_set] overwrites the first binding in place or appends;
     [obj_del] removes every binding of the key.  A value [wf_json] has unique keys in every
     object (that is what a Go map[string]any or any JSON library gives after parsing);
     [decode_last] turns a raw document with duplicate keys into the unique-key value that
     encoding/json builds (the LAST duplicate wins, no merging of the duplicates' contents).

   Equality
   - [json_beq]  : structural (order of members matters), reflects Leibniz equality;
   - [json_eqb]  : objects compared as finite maps (order-insensitive; on objects with
                   duplicate keys only the first binding of each key counts), arrays
                   position-wise.  [json_equiv] is the Prop-level relation it decides.

   Induction: [json_ind'] (nested lists handled with [Forall]); [json_size] for measures. *)
From Coq Require Import List NArith Bool Lia.
From Verif Require Import Base.Hex.
Import ListNotations.
Open Scope bool_scope.
Local Open Scope nat_scope.

Inductive json :=
| JNull
| JBool (b : bool)
| JNum (lit : bytes)
| JStr (s : bytes)
| JArr (items : list json)
| JObj (members : list (bytes * json)).

Definition obj := list (bytes * json).

(* ---------- association lists keyed by bytes (polymorphic in the value) ---------- *)
Section Assoc.
  Context {V : Type}.

  Fixpoint obj_get (k : bytes) (m : list (bytes * V)) : option V :=
    match m with
    | [] => None
    | (k', v) :: r => if beq_bytes k k' then Some v else obj_get k r
    end.

  Definition obj_mem (k : bytes) (m : list (bytes * V)) : bool :=
    match obj_get k m with Some _ => true | None => false end.

  (* overwrite the first binding in place, append when absent *)
  Fixpoint obj_set (k : bytes) (v : V) (m : list (bytes * V)) : list (bytes * V) :=
    match m with
    | [] => [(k, v)]
    | (k', v') :: r => if beq_bytes k k' then (k', v) :: r else (k', v') :: obj_set k v r
    end.

  (* remove every binding of k *)
  Fixpoint obj_del (k : bytes) (m : list (bytes * V)) : list (bytes * V) :=
    match m with
    | [] => []
    | (k', v') :: r => if beq_bytes k k' then obj_del k r else (k', v') :: obj_del k r
    end.

  Definition keys (m : list (bytes * V)) : list bytes := map fst m.
End Assoc.

Fixpoint memb (k : bytes) (l : list bytes) : bool :=
  match l with [] => false | x :: r => beq_bytes k x || memb k r end.

Fixpoint nodupb_keys (l : list bytes) : bool :=
  match l with [] => true | x :: r => negb (memb x r) && nodupb_keys r end.

(* ---------- size and induction ---------- *)
Fixpoint json_size (j : json) : nat :=
  match j with
  | JArr l => S (fold_right (fun x n => json_size x + n) 0 l)
  | JObj m => S (fold_right (fun kv n => json_size (snd kv) + n) 0 m)
  | _ => 1
  end.

Section Ind.
  Variable P : json -> Prop.
  Hypothesis Hnull : P JNull.
  Hypothesis Hbool : forall b, P (JBool b).
  Hypothesis Hnum : forall n, P (JNum n).
  Hypothesis Hstr : forall s, P (JStr s).
  Hypothesis Harr : forall l, Forall P l -> P (JArr l).
  Hypothesis Hobj : forall m, Forall (fun kv => P (snd kv)) m -> P (JObj m).

  Fixpoint json_ind' (j : json) : P j :=
    match j with
    | JNull => Hnull
    | JBool b => Hbool b
    | JNum n => Hnum n
    | JStr s => Hstr s
    | JArr l =>
        Harr l ((fix go (l : list json) : Forall P l :=
                   match l with
                   | [] => Forall_nil _
                   | x :: r => Forall_cons x (json_ind' x) (go r)
                   end) l)
    | JObj m =>
        Hobj m ((fix go (m : list (bytes * json)) : Forall (fun kv => P (snd kv)) m :=
                   match m with
                   | [] => Forall_nil _
                   | kv :: r => Forall_cons kv (json_ind' (snd kv)) (go r)
                   end) m)
    end.
End Ind.

(* ---------- boolean combinators used by the equalities ---------- *)
Section Comb.
  Context {A B : Type} (f : A -> B -> bool).

  Fixpoint forall2b (l1 : list A) (l2 : list B) : bool :=
    match l1, l2 with
    | [], [] => true
    | x :: r1, y :: r2 => f x y && forall2b r1 r2
    | _, _ => false
    end.

  (* members position-wise: same key and related values *)
  Fixpoint members2b (l1 : list (bytes * A)) (l2 : list (bytes * B)) : bool :=
    match l1, l2 with
    | [], [] => true
    | (k1, x) :: r1, (k2, y) :: r2 => beq_bytes k1 k2 && f x y && members2b r1 r2
    | _, _ => false
    end.

  (* every first binding (k, x) of l1 (keys in [seen] are shadowed) has a binding in y with a
     related value *)
  Fixpoint obj_subb (y : list (bytes * B)) (seen : list bytes) (l1 : list (bytes * A)) : bool :=
    match l1 with
    | [] => true
    | (k, x) :: r =>
        (if memb k seen then true
         else match obj_get k y with Some x' => f x x' | None => false end)
        && obj_subb y (k :: seen) r
    end.
End Comb.

(* ---------- structural equality ---------- *)
Fixpoint json_beq (a b : json) {struct a} : bool :=
  match a, b with
  | JNull, JNull => true
  | JBool x, JBool y => Bool.eqb x y
  | JNum x, JNum y => beq_bytes x y
  | JStr x, JStr y => beq_bytes x y
  | JArr x, JArr y => forall2b json_beq x y
  | JObj x, JObj y => members2b json_beq x y
  | _, _ => false
  end.

(* ---------- equality with objects as maps ---------- *)
Fixpoint json_eqb (a b : json) {struct a} : bool :=
  match a, b with
  | JNull, JNull => true
  | JBool x, JBool y => Bool.eqb x y
  | JNum x, JNum y => beq_bytes x y
  | JStr x, JStr y => beq_bytes x y
  | JArr x, JArr y => forall2b json_eqb x y
  | JObj x, JObj y =>
      obj_subb json_eqb y [] x && forallb (fun kv => obj_mem (fst kv) x) y
  | _, _ => false
  end.

(* Prop-level meaning of [json_eqb]: same shape, arrays position-wise, objects have the same
   key set and related values under first-binding look-up. *)
Inductive json_equiv : json -> json -> Prop :=
| EqNull : json_equiv JNull JNull
| EqBool b : json_equiv (JBool b) (JBool b)
| EqNum n : json_equiv (JNum n) (JNum n)
| EqStr s : json_equiv (JStr s) (JStr s)
| EqArr x y : Forall2 json_equiv x y -> json_equiv (JArr x) (JArr y)
| EqObj x y :
    (forall k, obj_get k x = None <-> obj_get k y = None) ->
    (forall k u v, obj_get k x = Some u -> obj_get k y = Some v -> json_equiv u v) ->
    json_equiv (JObj x) (JObj y).

(* ---------- well-formedness: unique keys in every object ---------- *)
Fixpoint wf_jsonb (j : json) : bool :=
  match j with
  | JArr l => forallb wf_jsonb l
  | JObj m => nodupb_keys (keys m) && forallb (fun kv => wf_jsonb (snd kv)) m
  | _ => true
  end.
Definition wf_json (j : json) : Prop := wf_jsonb j = true.

(* ---------- what encoding/json builds from a document with duplicate keys ---------- *)
(* left-to-right insertion with overwrite: the value of the last duplicate wins, the position
   is that of the first occurrence (positions are irrelevant under [json_eqb]) *)
Fixpoint decode_last (j : json) : json :=
  match j with
  | JArr l => JArr (map decode_last l)
  | JObj m =>
      JObj (fold_left (fun acc kv => obj_set (fst kv) (snd kv) acc)
                      (map (fun kv => (fst kv, decode_last (snd kv))) m) [])
  | _ => j
  end.

Definition is_obj (j : json) : bool := match j with JObj _ => true | _ => false end.
Definition is_null (j : json) : bool := match j with JNull => true | _ => false end.
Definition members_of (j : json) : obj := match j with JObj m => m | _ => [] end.

(* ========================================================================== *)
(* Lemmas                                                                     *)
(* ========================================================================== *)

Lemma beq_bytes_refl a : beq_bytes a a = true.
Proof. apply beq_bytes_eq. reflexivity. Qed.

Lemma beq_bytes_sym a b : beq_bytes a b = beq_bytes b a.
Proof.
  destruct (beq_bytes a b) eqn:E1, (beq_bytes b a) eqn:E2; try reflexivity.
  - apply beq_bytes_eq in E1. subst. rewrite beq_bytes_refl in E2. discriminate.
  - apply beq_bytes_eq in E2. subst. rewrite beq_bytes_refl in E1. discriminate.
Qed.

Lemma beq_bytes_neq a b : beq_bytes a b = false <-> a <> b.
Proof.
  split; intros H.
  - intros ->. rewrite beq_bytes_refl in H. discriminate.
  - destruct (beq_bytes a b) eqn:E; [|reflexivity]. apply beq_bytes_eq in E. contradiction.
Qed.

Lemma beq_bytes_spec a b : reflect (a = b) (beq_bytes a b).
Proof.
  destruct (beq_bytes a b) eqn:E; constructor.
  - now apply beq_bytes_eq.
  - now apply beq_bytes_neq.
Qed.

Lemma memb_In k l : memb k l = true <-> In k l.
Proof.
  induction l as [|x r IH]; simpl; [split; [discriminate|tauto]|].
  rewrite orb_true_iff, IH. split; intros [H|H]; auto.
  - left. symmetry. now apply beq_bytes_eq.
  - left. apply beq_bytes_eq. auto.
Qed.

Lemma nodupb_keys_NoDup l : nodupb_keys l = true <-> NoDup l.
Proof.
  induction l as [|x r IH]; simpl.
  - split; [constructor|reflexivity].
  - rewrite andb_true_iff, negb_true_iff, IH. split.
    + intros [H1 H2]. constructor; [|assumption]. rewrite <- memb_In. congruence.
    + intros H. inversion H; subst. split; [|assumption].
      destruct (memb x r) eqn:E; [|reflexivity]. apply memb_In in E. contradiction.
Qed.

Section AssocLemmas.
  Context {V : Type}.
  Implicit Types (m : list (bytes * V)) (k : bytes) (v : V).

  Lemma obj_get_set_same k v m : obj_get k (obj_set k v m) = Some v.
  Proof.
    induction m as [|[k' v'] r IH]; simpl.
    - now rewrite beq_bytes_refl.
    - destruct (beq_bytes k k') eqn:E; simpl; rewrite E; auto.
  Qed.

  Lemma obj_get_set_other k k' v m : k <> k' -> obj_get k' (obj_set k v m) = obj_get k' m.
  Proof.
    intros Hne. induction m as [|[k2 v2] r IH]; simpl.
    - replace (beq_bytes k' k) with false; [reflexivity|].
      symmetry. apply beq_bytes_neq. congruence.
    - destruct (beq_bytes k k2) eqn:E; simpl.
      + apply beq_bytes_eq in E. subst k2.
        replace (beq_bytes k' k) with false; [reflexivity|].
        symmetry. apply beq_bytes_neq. congruence.
      + now rewrite IH.
  Qed.

  Lemma obj_get_del_same k m : obj_get k (obj_del k m) = None.
  Proof.
    induction m as [|[k' v'] r IH]; simpl; [reflexivity|].
    destruct (beq_bytes k k') eqn:E; simpl; [assumption|]. now rewrite E.
  Qed.

  Lemma obj_get_del_other k k' m : k <> k' -> obj_get k' (obj_del k m) = obj_get k' m.
  Proof.
    intros Hne. induction m as [|[k2 v2] r IH]; simpl; [reflexivity|].
    destruct (beq_bytes k k2) eqn:E; simpl.
    - apply beq_bytes_eq in E. subst k2.
      replace (beq_bytes k' k) with false; [assumption|].
      symmetry. apply beq_bytes_neq. congruence.
    - now rewrite IH.
  Qed.

  Lemma obj_get_None_notin k m : obj_get k m = None <-> ~ In k (keys m).
  Proof.
    induction m as [|[k' v'] r IH]; simpl; [tauto|].
    destruct (beq_bytes_spec k k') as [->|Hne].
    - split; [discriminate|]. intros H. exfalso. apply H. now left.
    - rewrite IH. split; intros H; [intros [E|E]; [congruence|auto]|tauto].
  Qed.

  Lemma obj_get_Some_in k v m : obj_get k m = Some v -> In (k, v) m.
  Proof.
    induction m as [|[k' v'] r IH]; simpl; [discriminate|].
    destruct (beq_bytes_spec k k') as [->|Hne]; intros H.
    - inversion H; subst. now left.
    - right. auto.
  Qed.

  Lemma obj_get_in_nodup k v m : NoDup (keys m) -> In (k, v) m -> obj_get k m = Some v.
  Proof.
    induction m as [|[k' v'] r IH]; simpl; intros Hnd Hin; [contradiction|].
    inversion Hnd as [|? ? Hnotin Hnd']; subst.
    destruct Hin as [E|Hin].
    - inversion E; subst. now rewrite beq_bytes_refl.
    - destruct (beq_bytes_spec k k') as [->|Hne]; [|auto].
      exfalso. apply Hnotin. change (In (fst (k', v)) (map fst r)). now apply in_map.
  Qed.

  Lemma obj_mem_true k m : obj_mem k m = true <-> In k (keys m).
  Proof.
    unfold obj_mem. destruct (obj_get k m) eqn:E.
    - split; [|reflexivity]. intros _.
      apply obj_get_Some_in in E. change (In (fst (k, v)) (map fst m)). now apply in_map.
    - split; [discriminate|]. intros H. apply obj_get_None_notin in E. contradiction.
  Qed.

  (* setting a key to the value it already has / deleting an absent key changes nothing *)
  Lemma obj_set_same k v m : obj_get k m = Some v -> obj_set k v m = m.
  Proof.
    induction m as [|[k' v'] r IH]; simpl; [discriminate|].
    destruct (beq_bytes k k') eqn:E; intros H.
    - inversion H; subst. reflexivity.
    - now rewrite IH.
  Qed.

  Lemma obj_del_absent k m : obj_get k m = None -> obj_del k m = m.
  Proof.
    induction m as [|[k' v'] r IH]; simpl; [reflexivity|].
    destruct (beq_bytes k k') eqn:E; intros H; [discriminate|]. now rewrite IH.
  Qed.

  Lemma keys_obj_set_in k v m : In k (keys m) -> keys (obj_set k v m) = keys m.
  Proof.
    induction m as [|[k' v'] r IH]; simpl; [contradiction|].
    destruct (beq_bytes_spec k k') as [->|Hne]; intros H; simpl; [reflexivity|].
    f_equal. apply IH. destruct H; [congruence|assumption].
  Qed.

  Lemma keys_obj_set_notin k v m : ~ In k (keys m) -> keys (obj_set k v m) = keys m ++ [k].
  Proof.
    induction m as [|[k' v'] r IH]; simpl; [reflexivity|].
    destruct (beq_bytes_spec k k') as [->|Hne]; intros H; simpl.
    - exfalso. apply H. now left.
    - f_equal. apply IH. tauto.
  Qed.

  Lemma In_keys_obj_set k k' v m : In k' (keys (obj_set k v m)) <-> k' = k \/ In k' (keys m).
  Proof.
    destruct (in_dec (list_eq_dec N.eq_dec) k (keys m)) as [Hin|Hnot].
    - rewrite keys_obj_set_in by assumption. split; [auto|]. intros [->|H]; assumption.
    - rewrite keys_obj_set_notin by assumption. rewrite in_app_iff. simpl. intuition.
  Qed.

  Lemma In_keys_obj_del k k' m : In k' (keys (obj_del k m)) <-> k' <> k /\ In k' (keys m).
  Proof.
    induction m as [|[k2 v2] r IH]; simpl; [tauto|].
    destruct (beq_bytes_spec k k2) as [->|Hne]; simpl; rewrite IH.
    - intuition congruence.
    - intuition congruence.
  Qed.

  Lemma NoDup_keys_obj_set k v m : NoDup (keys m) -> NoDup (keys (obj_set k v m)).
  Proof.
    intros Hnd. destruct (in_dec (list_eq_dec N.eq_dec) k (keys m)) as [Hin|Hnot].
    - now rewrite keys_obj_set_in.
    - rewrite keys_obj_set_notin by assumption.
      clear -Hnd Hnot. induction (keys m) as [|x r IH]; simpl.
      + constructor; [tauto|constructor].
      + inversion Hnd; subst. constructor.
        * rewrite in_app_iff. simpl. intros [H|[H|[]]]; [contradiction|].
          apply Hnot. now left.
        * apply IH; [assumption|]. intros H. apply Hnot. now right.
  Qed.
End AssocLemmas.

(* ---------- the equalities ---------- *)
Lemma Forall_Forall2_refl {A} (R : A -> A -> Prop) (l : list A) :
  Forall (fun x => R x x) l -> Forall2 R l l.
Proof. induction 1; constructor; auto. Qed.

Lemma json_equiv_refl a : json_equiv a a.
Proof.
  induction a as [| | | |l IH|m IH] using json_ind'; try constructor.
  - now apply Forall_Forall2_refl.
  - tauto.
  - intros k u v Hu Hv. rewrite Hu in Hv. inversion Hv; subst v.
    apply obj_get_Some_in in Hu. rewrite Forall_forall in IH. exact (IH _ Hu).
Qed.

(* characterisation of the two object loops of [json_eqb], for any value relation *)
Lemma obj_subb_spec {A B} (f : A -> B -> bool) (y : list (bytes * B)) l :
  forall seen,
    obj_subb f y seen l = true <->
    (forall k x, obj_get k l = Some x -> ~ In k seen ->
                 exists x', obj_get k y = Some x' /\ f x x' = true).
Proof.
  induction l as [|[k0 x0] r IH]; intros seen; simpl.
  - split; [discriminate|reflexivity].
  - rewrite andb_true_iff, IH. split.
    + intros [H1 H2] k x Hget Hseen.
      destruct (beq_bytes_spec k k0) as [->|Hne].
      * inversion Hget; subst x0.
        destruct (memb k0 seen) eqn:Em; [apply memb_In in Em; contradiction|].
        destruct (obj_get k0 y) as [x'|]; [|discriminate]. eauto.
      * apply (H2 k x Hget). simpl. intros [E|E]; [congruence|contradiction].
    + intros H. split.
      * destruct (memb k0 seen) eqn:Em; [reflexivity|].
        destruct (H k0 x0) as [x' [Hy Hf]].
        -- now rewrite beq_bytes_refl.
        -- intros Hin. apply memb_In in Hin. congruence.
        -- now rewrite Hy.
      * intros k x Hget Hseen. apply (H k x).
        -- destruct (beq_bytes_spec k k0) as [->|Hne]; [|assumption].
           exfalso. apply Hseen. now left.
        -- intros Hin. apply Hseen. now right.
Qed.

Lemma keys_subb_spec {A B} (x : list (bytes * A)) (y : list (bytes * B)) :
  forallb (fun kv => obj_mem (fst kv) x) y = true <->
  (forall k, obj_get k x = None -> obj_get k y = None).
Proof.
  rewrite forallb_forall. split.
  - intros H k Hx. apply obj_get_None_notin. intros Hin.
    apply in_map_iff in Hin. destruct Hin as [[k' v] [E Hin]]. simpl in E. subst k'.
    specialize (H _ Hin). simpl in H. unfold obj_mem in H. now rewrite Hx in H.
  - intros H [k v] Hin. simpl. unfold obj_mem.
    destruct (obj_get k x) eqn:Ex; [reflexivity|].
    apply H in Ex. apply obj_get_None_notin in Ex. exfalso. apply Ex.
    change (In (fst (k, v)) (map fst y)). now apply in_map.
Qed.

Theorem json_eqb_equiv a : forall b, json_eqb a b = true <-> json_equiv a b.
Proof.
  induction a as [|x0|x0|x0|l IH|m IH] using json_ind'; intros b.
  - destruct b; simpl; split; intros H; try discriminate; try constructor; inversion H.
  - destruct b as [|b'| | | |]; simpl; split; intros H; try discriminate; try (now inversion H).
    + apply Bool.eqb_prop in H. subst. constructor.
    + inversion H; subst. apply Bool.eqb_reflx.
  - destruct b as [| |n'| | |]; simpl; split; intros H; try discriminate; try (now inversion H).
    + apply beq_bytes_eq in H. subst. constructor.
    + inversion H; subst. apply beq_bytes_refl.
  - destruct b as [| | |s'| |]; simpl; split; intros H; try discriminate; try (now inversion H).
    + apply beq_bytes_eq in H. subst. constructor.
    + inversion H; subst. apply beq_bytes_refl.
  - destruct b as [| | | |l'|]; simpl; try (split; intros H; [discriminate|now inversion H]).
    assert (Hl : forall2b json_eqb l l' = true <-> Forall2 json_equiv l l').
    { clear -IH. revert l'. induction l as [|x r IHr]; intros [|y r']; simpl.
      - split; [constructor|reflexivity].
      - split; [discriminate|intros H; inversion H].
      - split; [discriminate|intros H; inversion H].
      - inversion IH as [|? ? Hx Hr]; subst. rewrite andb_true_iff, (Hx y), (IHr Hr r').
        split; [intros [? ?]; now constructor|intros H; inversion H; auto]. }
    rewrite Hl. split; [now constructor|now inversion 1].
  - destruct b as [| | | | |m']; simpl; try (split; intros H; [discriminate|now inversion H]).
    rewrite andb_true_iff, obj_subb_spec, keys_subb_spec.
    rewrite Forall_forall in IH.
    split.
    + intros [Hsub Hkeys]. constructor.
      * intros k. split; [apply Hkeys|].
        intros Hy. destruct (obj_get k m) as [u|] eqn:Ex; [|reflexivity].
        destruct (Hsub k u Ex) as [v' [Hv' _]]; [tauto|congruence].
      * intros k u v Hu Hv. destruct (Hsub k u Hu) as [v' [Hv' Hf]]; [tauto|].
        rewrite Hv in Hv'. inversion Hv'; subst v'.
        apply (IH (k, u)); [now apply obj_get_Some_in|assumption].
    + intros H. inversion H as [| | | | |? ? Hnone Hrel]; subst. split.
      * intros k u Hu _. destruct (obj_get k m') as [v|] eqn:Ev.
        -- exists v. split; [reflexivity|].
           apply (IH (k, u)); [now apply obj_get_Some_in|]. eapply Hrel; eauto.
        -- apply Hnone in Ev. congruence.
      * intros k. apply Hnone.
Qed.

Corollary json_eqb_refl a : json_eqb a a = true.
Proof. apply json_eqb_equiv, json_equiv_refl. Qed.

Theorem json_beq_eq a : forall b, json_beq a b = true <-> a = b.
Proof.
  induction a as [|x0|x0|x0|l IH|m IH] using json_ind'; intros b.
  - destruct b; simpl; split; intros H; try discriminate; reflexivity.
  - destruct b as [|b'| | | |]; simpl; split; intros H; try discriminate.
    + apply Bool.eqb_prop in H. now subst.
    + inversion H; subst. apply Bool.eqb_reflx.
  - destruct b as [| |n'| | |]; simpl; split; intros H; try discriminate.
    + apply beq_bytes_eq in H. now subst.
    + inversion H; subst. apply beq_bytes_refl.
  - destruct b as [| | |s'| |]; simpl; split; intros H; try discriminate.
    + apply beq_bytes_eq in H. now subst.
    + inversion H; subst. apply beq_bytes_refl.
  - destruct b as [| | | |l'|]; simpl; try (split; intros H; discriminate).
    assert (Hl : forall2b json_beq l l' = true <-> l = l').
    { clear -IH. revert l'. induction l as [|x r IHr]; intros [|y r']; simpl;
        try (split; [reflexivity || discriminate | reflexivity || discriminate]).
      inversion IH as [|? ? Hx Hr]; subst. rewrite andb_true_iff, (Hx y), (IHr Hr r').
      split; [intros [? ?]; congruence|intros H; inversion H; auto]. }
    rewrite Hl. split; congruence.
  - destruct b as [| | | | |m']; simpl; try (split; intros H; discriminate).
    assert (Hm : members2b json_beq m m' = true <-> m = m').
    { clear -IH. revert m'. induction m as [|[k x] r IHr]; intros [|[k' y] r']; simpl;
        try (split; [reflexivity || discriminate | reflexivity || discriminate]).
      inversion IH as [|? ? Hx Hr]; subst. simpl in Hx.
      rewrite !andb_true_iff, (Hx y), (IHr Hr r'), beq_bytes_eq.
      split; [intros [[? ?] ?]; congruence|intros H; inversion H; auto]. }
    rewrite Hm. split; congruence.
Qed.

Lemma json_beq_refl a : json_beq a a = true.
Proof. now apply json_beq_eq. Qed.

Lemma json_eq_dec (a b : json) : {a = b} + {a <> b}.
Proof.
  destruct (json_beq a b) eqn:E.
  - left. now apply json_beq_eq.
  - right. intros H. apply json_beq_eq in H. congruence.
Qed.

(* ---------- well-formedness ---------- *)
Lemma wf_json_obj m :
  wf_json (JObj m) <-> NoDup (keys m) /\ Forall (fun kv => wf_json (snd kv)) m.
Proof.
  unfold wf_json. simpl. rewrite andb_true_iff, nodupb_keys_NoDup, forallb_forall, Forall_forall.
  tauto.
Qed.

Lemma wf_json_arr l : wf_json (JArr l) <-> Forall wf_json l.
Proof. unfold wf_json. simpl. rewrite forallb_forall, Forall_forall. tauto. Qed.

Lemma obj_set_values_Forall (P : json -> Prop) k v (m : obj) :
  P v -> Forall (fun kv => P (snd kv)) m -> Forall (fun kv => P (snd kv)) (obj_set k v m).
Proof.
  intros Hv. induction 1 as [|[k' v'] r Hx Hr IH]; simpl.
  - constructor; [assumption|constructor].
  - destruct (beq_bytes k k'); constructor; auto.
Qed.

Lemma obj_del_values_Forall (P : json -> Prop) k (m : obj) :
  Forall (fun kv => P (snd kv)) m -> Forall (fun kv => P (snd kv)) (obj_del k m).
Proof.
  induction 1 as [|[k' v'] r Hx Hr IH]; simpl; [constructor|].
  destruct (beq_bytes k k'); [assumption|constructor; auto].
Qed.

Lemma NoDup_keys_obj_del {V} k (m : list (bytes * V)) : NoDup (keys m) -> NoDup (keys (obj_del k m)).
Proof.
  induction m as [|[k' v'] r IH]; simpl; intros H; [constructor|].
  inversion H; subst. destruct (beq_bytes k k'); [auto|]. simpl. constructor; [|auto].
  rewrite In_keys_obj_del. tauto.
Qed.

(* decode_last produces unique keys at every level *)
Lemma decode_last_wf j : wf_json (decode_last j).
Proof.
  induction j as [| | | |l IH|m IH] using json_ind'; try reflexivity.
  - simpl. apply wf_json_arr. rewrite Forall_map. exact IH.
  - simpl. apply wf_json_obj.
    set (f := fun (acc : obj) (kv : bytes * json) => obj_set (fst kv) (snd kv) acc).
    assert (G : forall (l acc : obj),
               Forall (fun kv => wf_json (snd kv)) l ->
               NoDup (keys acc) /\ Forall (fun kv => wf_json (snd kv)) acc ->
               NoDup (keys (fold_left f l acc)) /\ Forall (fun kv => wf_json (snd kv)) (fold_left f l acc)).
    { induction l as [|[k v] r IHr]; intros acc Hl [Hn Hf]; simpl; [tauto|].
      inversion Hl; subst. apply IHr; [assumption|]. unfold f. simpl. split.
      - now apply NoDup_keys_obj_set.
      - now apply obj_set_values_Forall. }
    apply G.
    + rewrite Forall_map. simpl. exact IH.
    + split; constructor.
Qed.

(* on a value that already has unique keys decode_last changes nothing observable *)
Example decode_last_example :
  decode_last (JObj [([97], JNum [49]); ([98], JNull);
                     ([97], JObj [([120], JNull); ([120], JBool true)])]%N)
  = JObj [([97], JObj [([120], JBool true)]); ([98], JNull)]%N.
Proof. vm_compute. reflexivity. Qed.
