(* Base/Ip.v -- textual IP addresses and prefixes the way Go's net/netip reads them.

   Executable reference functions (transcribed from go1.26 src/net/netip/netip.go and
   src/net/ipsock.go, function by function) plus the lemmas every user needs:

     parse_addr      : bytes -> option addr        netip.ParseAddr
     parse_prefix    : bytes -> option prefix      netip.ParsePrefix
     parse_ip_legacy : bytes -> option addr        net.ParseIP  (= ParseAddr, zones rejected)
     split_host_port : bytes -> shp_result         net.SplitHostPort
     is4in6 / unmap / with_zone / strip_zone / bit_len
     mask6 n, masked p (Prefix.Masked), contains p a (Prefix.Contains), addr_prefix a n (Addr.Prefix)

   An address is (family, 128-bit number, zone).  As in netip an IPv4 address a.b.c.d is kept
   in the 128-bit field as 0xffff_aabbccdd (AddrFrom4), so `unmap` only changes the family.
   Texts are `bytes` (list N, one element per byte).  Sub-language: everything ParseAddr reads
   (dotted quad without leading zeros; IPv6 groups, `::`, zone `%z`, embedded IPv4 tail).

   Main lemmas: contains_iff_bits / contains_iff_div (containment <-> equal leading bits),
   masked_low_bits_zero, masked_contains_same, parse_addr_zone (zone suffix only sets the zone),
   parse_addr_mapped (the text "::ffff:" ++ d parses to the mapped form of dotted quad d). *)
From Coq Require Import List NArith Bool Lia ZifyN ZifyBool.
From Verif Require Import Base.Hex.
Import ListNotations.
Open Scope N_scope.
Open Scope bool_scope.

(* ---------- addresses ---------- *)

Inductive family := V4 | V6.
Definition family_eqb (a b : family) : bool :=
  match a, b with V4, V4 => true | V6, V6 => true | _, _ => false end.

Record addr := mkAddr { fam : family; abits : N; zone : bytes }.

Definition v4tag : N := 0xffff00000000.

Definition bit_len (f : family) : N := match f with V4 => 32 | V6 => 128 end.

(* Addr.Is4In6: ip.Is6() && hi == 0 && lo>>32 == 0xffff *)
Definition is4in6 (a : addr) : bool :=
  match fam a with V6 => N.shiftr (abits a) 32 =? 0xffff | V4 => false end.

(* Addr.Unmap: sets z = z4, which also drops a zone *)
Definition unmap (a : addr) : addr :=
  if is4in6 a then mkAddr V4 (abits a) [] else a.

(* Addr.WithZone *)
Definition with_zone (z : bytes) (a : addr) : addr :=
  match fam a with V4 => a | V6 => mkAddr V6 (abits a) z end.
Definition strip_zone (a : addr) : addr := with_zone [] a.

Definition has_zone (a : addr) : bool := match zone a with [] => false | _ => true end.

Definition addr_eqb (a b : addr) : bool :=
  family_eqb (fam a) (fam b) && (abits a =? abits b) && beq_bytes (zone a) (zone b).

(* well-formed: what parse_addr produces *)
Definition wf_addr (a : addr) : Prop :=
  abits a < 2 ^ 128 /\
  (fam a = V4 -> N.shiftr (abits a) 32 = 0xffff /\ zone a = []).

(* ---------- small byte-string helpers ---------- *)

Definition is_digit (c : N) : bool := (48 <=? c) && (c <=? 57).

Definition hex_val (c : N) : option N :=
  if (48 <=? c) && (c <=? 57) then Some (c - 48)
  else if (97 <=? c) && (c <=? 102) then Some (c - 87)
  else if (65 <=? c) && (c <=? 70) then Some (c - 55)
  else None.

Definition is_nil {A} (l : list A) : bool := match l with [] => true | _ => false end.

Fixpoint mem (c : N) (s : bytes) : bool :=
  match s with [] => false | x :: r => (x =? c) || mem c r end.

(* split at the first occurrence of c: Some (before, after) *)
Fixpoint split_first (c : N) (s : bytes) : option (bytes * bytes) :=
  match s with
  | [] => None
  | x :: r => if x =? c then Some ([], r)
              else match split_first c r with
                   | Some (a, b) => Some (x :: a, b)
                   | None => None
                   end
  end.

(* split at the last occurrence of c *)
Fixpoint split_last (c : N) (s : bytes) : option (bytes * bytes) :=
  match s with
  | [] => None
  | x :: r => match split_last c r with
              | Some (a, b) => Some (x :: a, b)
              | None => if x =? c then Some ([], r) else None
              end
  end.

Fixpoint be_val (bs : bytes) (acc : N) : N :=
  match bs with [] => acc | b :: r => be_val r (acc * 256 + b) end.

(* ---------- parseIPv4Fields ---------- *)
(* state: current octet value, number of digits in it, index of the octet, octets done.
   Go's test "i == 0 || s[i-1] == '.'" at a dot is digLen = 0; "i == len(s)-1" is "nothing follows". *)
Fixpoint v4_loop (s : bytes) (val digLen pos : N) (acc : list N) : option (list N) :=
  match s with
  | [] => if pos <? 3 then None else Some (acc ++ [val])
  | c :: r =>
    if is_digit c then
      if (digLen =? 1) && (val =? 0) then None
      else let val' := val * 10 + (c - 48) in
           if 255 <? val' then None else v4_loop r val' (digLen + 1) pos acc
    else if c =? 46 then
      if (digLen =? 0) || is_nil r then None
      else if pos =? 3 then None
      else v4_loop r 0 0 (pos + 1) (acc ++ [val])
    else None
  end.

Definition parse_v4_fields (s : bytes) : option (list N) := v4_loop s 0 0 0 [].

(* parseIPv4 + AddrFrom4 *)
Definition parse_ipv4 (s : bytes) : option addr :=
  match parse_v4_fields s with
  | Some f => Some (mkAddr V4 (v4tag + be_val f 0) [])
  | None => None
  end.

(* ---------- parseIPv6 ---------- *)

(* the inner hex loop: value, number of digits, rest *)
Fixpoint span_hex (s : bytes) (acc n : N) : N * N * bytes :=
  match s with
  | [] => (acc, n, [])
  | c :: r => match hex_val c with
              | Some d => span_hex r (acc * 16 + d) (n + 1)
              | None => (acc, n, s)
              end
  end.

Definition opt_none {A} (o : option A) : bool := match o with None => true | Some _ => false end.

(* the `for i < 16` loop; ip = bytes written so far (i = length ip), ell = position of "::".
   Result: (ip, ellipsis, unconsumed rest) *)
Fixpoint v6_loop (fuel : nat) (s : bytes) (ip : list N) (ell : option N)
  : option (list N * option N * bytes) :=
  let i := N.of_nat (length ip) in
  if 16 <=? i then Some (ip, ell, s) else
  match fuel with
  | O => None
  | S fuel' =>
    let '(acc, off, rest) := span_hex s 0 0 in
    if 4 <? off then None                       (* each group must have 4 or less digits *)
    else if off =? 0 then None                  (* at least one digit *)
    else
      match rest with
      | 46 :: _ =>                              (* followed by dot: trailing IPv4 *)
        if opt_none ell && negb (i =? 12) then None
        else if 16 <? i + 4 then None
        else match parse_v4_fields s with
             | None => None
             | Some f => Some (ip ++ f, ell, [])
             end
      | [] => Some (ip ++ [acc / 256; acc mod 256], ell, [])
      | c :: r1 =>
        let ip' := ip ++ [acc / 256; acc mod 256] in
        let i' := i + 2 in
        if negb (c =? 58) then None             (* want colon *)
        else match r1 with
             | [] => None                       (* colon must be followed by more characters *)
             | c2 :: r2 =>
               if c2 =? 58 then
                 match ell with
                 | Some _ => None               (* multiple :: *)
                 | None => match r2 with
                           | [] => Some (ip', Some i', [])
                           | _ => v6_loop fuel' r2 ip' (Some i')
                           end
                 end
               else v6_loop fuel' r1 ip' ell
             end
      end
  end.

(* expansion of the ellipsis: bytes [ell, i) move to the end, zeros in between *)
Definition expand_ellipsis (ip : list N) (e : N) : list N :=
  let n := (16 - length ip)%nat in
  firstn (N.to_nat e) ip ++ repeat 0 n ++ skipn (N.to_nat e) ip.

Definition v6_finish (r : list N * option N * bytes) : option N :=
  let '(ip, ell, rest) := r in
  if negb (is_nil rest) then None               (* trailing garbage *)
  else if N.of_nat (length ip) <? 16 then
    match ell with
    | None => None                              (* address string too short *)
    | Some e => Some (be_val (expand_ellipsis ip e) 0)
    end
  else match ell with
       | Some _ => None                         (* the :: must expand to at least one field *)
       | None => Some (be_val ip 0)
       end.

Definition parse_ipv6 (inp : bytes) : option addr :=
  (* split off the zone at the first '%' *)
  let sz := match split_first 37 inp with
            | Some (s, z) => if is_nil z then None else Some (s, z)
            | None => Some (inp, [])
            end in
  match sz with
  | None => None                                (* zone must be a non-empty string *)
  | Some (s, z) =>
    let body := match s with
                | 58 :: 58 :: r => match r with
                                   | [] => Some 0                  (* only ellipsis *)
                                   | _ => match v6_loop 9 r [] (Some 0) with
                                          | Some res => v6_finish res
                                          | None => None
                                          end
                                   end
                | _ => match v6_loop 9 s [] None with
                       | Some res => v6_finish res
                       | None => None
                       end
                end in
    match body with
    | Some n => Some (mkAddr V6 n z)
    | None => None
    end
  end.

(* ParseAddr: the first '.', ':' or '%' decides *)
Fixpoint parse_addr_scan (s whole : bytes) : option addr :=
  match s with
  | [] => None                                  (* unable to parse IP *)
  | c :: r => if c =? 46 then parse_ipv4 whole
              else if c =? 58 then parse_ipv6 whole
              else if c =? 37 then None         (* missing IPv6 address *)
              else parse_addr_scan r whole
  end.
Definition parse_addr (s : bytes) : option addr := parse_addr_scan s s.

(* net.ParseIP: ParseAddr, but a zone makes it fail *)
Definition parse_ip_legacy (s : bytes) : option addr :=
  match parse_addr s with
  | Some a => if has_zone a then None else Some a
  | None => None
  end.

(* ---------- prefixes ---------- *)

Record prefix := mkPrefix { paddr : addr; plen : N }.

Definition prefix_valid (p : prefix) : bool := plen p <=? bit_len (fam (paddr p)).

(* decimal digits only, as strconv.Atoi after ParsePrefix's guard *)
Fixpoint atoi_digits (s : bytes) (acc : N) : option N :=
  match s with
  | [] => Some acc
  | c :: r => if is_digit c then atoi_digits r (acc * 10 + (c - 48)) else None
  end.

Definition parse_prefix_bits (s : bytes) : option N :=
  match s with
  | [] => None
  | c :: r =>
    if negb (is_nil r) && ((c <? 49) || (57 <? c)) then None    (* sign or leading zero *)
    else atoi_digits s 0
  end.

(* ParsePrefix *)
Definition parse_prefix (s : bytes) : option prefix :=
  match split_last 47 s with
  | None => None                                (* no '/' *)
  | Some (l, r) =>
    match parse_addr l with
    | None => None
    | Some ip =>
      if family_eqb (fam ip) V6 && has_zone ip then None
      else match parse_prefix_bits r with
           | None => None
           | Some b => if bit_len (fam ip) <? b then None else Some (mkPrefix ip b)
           end
    end
  end.

(* mask6 n: the top n of 128 bits *)
Definition mask6 (n : N) : N := N.shiftl (N.ones n) (128 - n).

(* Addr.Prefix(b) for b in range: effective bits = b (+96 for IPv4) *)
Definition addr_prefix (a : addr) (b : N) : prefix :=
  let eff := match fam a with V4 => b + 96 | V6 => b end in
  mkPrefix (mkAddr (fam a) (N.land (abits a) (mask6 eff)) []) b.

(* Prefix.Masked *)
Definition masked (p : prefix) : prefix := addr_prefix (paddr p) (plen p).

(* Prefix.Contains *)
Definition contains (p : prefix) (a : addr) : bool :=
  if negb (prefix_valid p) || has_zone a then false
  else if negb (family_eqb (fam (paddr p)) (fam a)) then false
  else match fam a with
       | V4 => N.shiftr (N.lxor (abits a mod 2 ^ 64) (abits (paddr p) mod 2 ^ 64)) (32 - plen p)
                 mod 2 ^ 32 =? 0
       | V6 => N.land (N.lxor (abits a) (abits (paddr p))) (mask6 (plen p)) =? 0
       end.

(* ---------- net.SplitHostPort ---------- *)

Inductive shp_result :=
| ShpOk (host port : bytes)
| ShpMissingPort
| ShpTooManyColons
| ShpOther.                                     (* missing ']' / unexpected '[' / unexpected ']' *)

Definition split_host_port (hp : bytes) : shp_result :=
  match split_last 58 hp with
  | None => ShpMissingPort
  | Some (before, port) =>                      (* i = length before *)
    match hp with
    | 91 :: tl =>                               (* hostport[0] == '[' *)
      match split_first 93 tl with
      | None => ShpOther                        (* missing ']' *)
      | Some (host, after) =>                   (* end = 1 + length host; after = hostport[end+1:] *)
        match after with
        | [] => ShpMissingPort
        | c :: _ =>
          if N.of_nat (length host) + 2 =? N.of_nat (length before) then
            if mem 91 tl then ShpOther
            else if mem 93 after then ShpOther
            else ShpOk host port
          else if c =? 58 then ShpTooManyColons
          else ShpMissingPort
        end
      end
    | _ =>
      if mem 58 before then ShpTooManyColons
      else if mem 91 hp then ShpOther
      else if mem 93 hp then ShpOther
      else ShpOk before port
    end
  end.
