(* Base/Ip.v -- textual IP addresses and prefixes the way Go's net/netip reads them.

   Executable reference functions (transcribed from go1.26 src/net/netip/netip.go and
   src/net/ipsock.go, function by function) plus the lemmas every user needs:

     parse_addr      : bytes -> option addr        netip.ParseAddr
     parse_prefix    : bytes -> option prefix      netip.ParsePrefix
     parse_ip_legacy : bytes -> option addr        net.ParseIP  (= ParseAddr, zones rejected)
     split_host_port : bytes -> shp_result         net.SplitHostPort
     is4in6 / unmap / with_zone / strip_zone / bit_len
     mask6 n, masked p (Prefix.Masked), contains p a (Prefix.Contains), addr_prefix a n (Addr.Prefix)

   An address is (family, 128-bit number, zone).  As in netip an IPv4 address a.b.c.d is kept
   in the 128-bit field as 0xffff_aabbccdd (AddrFrom4), so `unmap` only changes the family.
   Texts are `bytes` (list N, one element per byte).  Sub-language: everything ParseAddr reads
   (dotted quad without leading zeros; IPv6 groups, `::`, zone `%z`, embedded IPv4 tail).

   Main lemmas: contains_iff_bits / contains_iff_div (containment <-> equal leading bits),
   masked_low_bits_zero, masked_contains_same, parse_addr_zone (zone suffix only sets the zone),
   parse_addr_mapped (the text "::ffff:" ++ d parses to the mapped form of dotted quad d). *)
From Coq Require Import List NArith ZArith Bool Lia ZifyN ZifyBool ZifyNat.
From Verif Require Import Base.Hex.
Import ListNotations.
Open Scope N_scope.
Open Scope bool_scope.

(* ---------- addresses ---------- *)

Inductive family := V4 | V6.
Definition family_eqb (a b : family) : bool :=
  match a, b with V4, V4 => true | V6, V6 => true | _, _ => false end.

Record addr := mkAddr { fam : family; abits : N; zone : bytes }.

Definition v4tag : N := 0xffff00000000.

Definition bit_len (f : family) : N := match f with V4 => 32 | V6 => 128 end.

(* Addr.Is4In6: ip.Is6() && hi == 0 && lo>>32 == 0xffff *)
Definition is4in6 (a : addr) : bool :=
  match fam a with V6 => N.shiftr (abits a) 32 =? 0xffff | V4 => false end.

(* Addr.Unmap: sets z = z4, which also drops a zone *)
Definition unmap (a : addr) : addr :=
  if is4in6 a then mkAddr V4 (abits a) [] else a.

(* Addr.WithZone *)
Definition with_zone (z : bytes) (a : addr) : addr :=
  match fam a with V4 => a | V6 => mkAddr V6 (abits a) z end.
Definition strip_zone (a : addr) : addr := with_zone [] a.

Definition has_zone (a : addr) : bool := match zone a with [] => false | _ => true end.

Definition addr_eqb (a b : addr) : bool :=
  family_eqb (fam a) (fam b) && (abits a =? abits b) && beq_bytes (zone a) (zone b).

(* well-formed: what parse_addr produces *)
Definition wf_addr (a : addr) : Prop :=
  abits a < 2 ^ 128 /\
  (fam a = V4 -> N.shiftr (abits a) 32 = 0xffff /\ zone a = []).

(* ---------- small byte-string helpers ---------- *)

Definition is_digit (c : N) : bool := (48 <=? c) && (c <=? 57).

Definition hex_val (c : N) : option N :=
  if (48 <=? c) && (c <=? 57) then Some (c - 48)
  else if (97 <=? c) && (c <=? 102) then Some (c - 87)
  else if (65 <=? c) && (c <=? 70) then Some (c - 55)
  else None.

Definition is_nil {A} (l : list A) : bool := match l with [] => true | _ => false end.

Fixpoint mem (c : N) (s : bytes) : bool :=
  match s with [] => false | x :: r => (x =? c) || mem c r end.

(* split at the first occurrence of c: Some (before, after) *)
Fixpoint split_first (c : N) (s : bytes) : option (bytes * bytes) :=
  match s with
  | [] => None
  | x :: r => if x =? c then Some ([], r)
              else match split_first c r with
                   | Some (a, b) => Some (x :: a, b)
                   | None => None
                   end
  end.

(* split at the last occurrence of c *)
Fixpoint split_last (c : N) (s : bytes) : option (bytes * bytes) :=
  match s with
  | [] => None
  | x :: r => match split_last c r with
              | Some (a, b) => Some (x :: a, b)
              | None => if x =? c then Some ([], r) else None
              end
  end.

Fixpoint be_val (bs : bytes) (acc : N) : N :=
  match bs with [] => acc | b :: r => be_val r (acc * 256 + b) end.

(* ---------- parseIPv4Fields ---------- *)
(* state: current octet value, number of digits in it, index of the octet, octets done.
   Go's test "i == 0 || s[i-1] == '.'" at a dot is digLen = 0; "i == len(s)-1" is "nothing follows". *)
Fixpoint v4_loop (s : bytes) (val digLen pos : N) (acc : list N) : option (list N) :=
  match s with
  | [] => if pos <? 3 then None else Some (acc ++ [val])
  | c :: r =>
    if is_digit c then
      if (digLen =? 1) && (val =? 0) then None
      else let val' := val * 10 + (c - 48) in
           if 255 <? val' then None else v4_loop r val' (digLen + 1) pos acc
    else if c =? 46 then
      if (digLen =? 0) || is_nil r then None
      else if pos =? 3 then None
      else v4_loop r 0 0 (pos + 1) (acc ++ [val])
    else None
  end.

Definition parse_v4_fields (s : bytes) : option (list N) := v4_loop s 0 0 0 [].

(* parseIPv4 + AddrFrom4 *)
Definition parse_ipv4 (s : bytes) : option addr :=
  match parse_v4_fields s with
  | Some f => Some (mkAddr V4 (v4tag + be_val f 0) [])
  | None => None
  end.

(* ---------- parseIPv6 ---------- *)

(* the inner hex loop: value, number of digits, rest *)
Fixpoint span_hex (s : bytes) (acc n : N) : N * N * bytes :=
  match s with
  | [] => (acc, n, [])
  | c :: r => match hex_val c with
              | Some d => span_hex r (acc * 16 + d) (n + 1)
              | None => (acc, n, s)
              end
  end.

Definition opt_none {A} (o : option A) : bool := match o with None => true | Some _ => false end.

(* the `for i < 16` loop; ip = bytes written so far (i = length ip), ell = position of "::".
   Result: (ip, ellipsis, unconsumed rest) *)
Fixpoint v6_loop (fuel : nat) (s : bytes) (ip : list N) (ell : option N)
  : option (list N * option N * bytes) :=
  let i := N.of_nat (length ip) in
  if 16 <=? i then Some (ip, ell, s) else
  match fuel with
  | O => None
  | S fuel' =>
    let '(acc, off, rest) := span_hex s 0 0 in
    if 4 <? off then None                       (* each group must have 4 or less digits *)
    else if off =? 0 then None                  (* at least one digit *)
    else
      match rest with
      | 46 :: _ =>                              (* followed by dot: trailing IPv4 *)
        if opt_none ell && negb (i =? 12) then None
        else if 16 <? i + 4 then None
        else match parse_v4_fields s with
             | None => None
             | Some f => Some (ip ++ f, ell, [])
             end
      | [] => Some (ip ++ [acc / 256; acc mod 256], ell, [])
      | c :: r1 =>
        let ip' := ip ++ [acc / 256; acc mod 256] in
        let i' := i + 2 in
        if negb (c =? 58) then None             (* want colon *)
        else match r1 with
             | [] => None                       (* colon must be followed by more characters *)
             | c2 :: r2 =>
               if c2 =? 58 then
                 match ell with
                 | Some _ => None               (* multiple :: *)
                 | None => match r2 with
                           | [] => Some (ip', Some i', [])
                           | _ => v6_loop fuel' r2 ip' (Some i')
                           end
                 end
               else v6_loop fuel' r1 ip' ell
             end
      end
  end.

(* expansion of the ellipsis: bytes [ell, i) move to the end, zeros in between *)
Definition expand_ellipsis (ip : list N) (e : N) : list N :=
  let n := (16 - length ip)%nat in
  firstn (N.to_nat e) ip ++ repeat 0 n ++ skipn (N.to_nat e) ip.

Definition v6_finish (r : list N * option N * bytes) : option N :=
  let '(ip, ell, rest) := r in
  if negb (is_nil rest) then None               (* trailing garbage *)
  else if N.of_nat (length ip) <? 16 then
    match ell with
    | None => None                              (* address string too short *)
    | Some e => Some (be_val (expand_ellipsis ip e) 0)
    end
  else match ell with
       | Some _ => None                         (* the :: must expand to at least one field *)
       | None => Some (be_val ip 0)
       end.

(* the loop and what follows it, for a given initial ellipsis state *)
Definition v6_run (s : bytes) (ell : option N) : option N :=
  match v6_loop 9 s [] ell with
  | Some res => v6_finish res
  | None => None
  end.

(* the address proper (zone already split off): a leading "::" sets ellipsis = 0 *)
Definition v6_body (s : bytes) : option N :=
  match s with
  | 58 :: 58 :: r => match r with
                     | [] => Some 0                  (* only ellipsis: IPv6Unspecified *)
                     | _ => v6_run r (Some 0)
                     end
  | _ => v6_run s None
  end.

Definition parse_ipv6 (inp : bytes) : option addr :=
  (* split off the zone at the first '%' *)
  let sz := match split_first 37 inp with
            | Some (s, z) => if is_nil z then None else Some (s, z)
            | None => Some (inp, [])
            end in
  match sz with
  | None => None                                (* zone must be a non-empty string *)
  | Some (s, z) =>
    match v6_body s with
    | Some n => Some (mkAddr V6 n z)
    | None => None
    end
  end.

(* ParseAddr: the first '.', ':' or '%' decides *)
Fixpoint parse_addr_scan (s whole : bytes) : option addr :=
  match s with
  | [] => None                                  (* unable to parse IP *)
  | c :: r => if c =? 46 then parse_ipv4 whole
              else if c =? 58 then parse_ipv6 whole
              else if c =? 37 then None         (* missing IPv6 address *)
              else parse_addr_scan r whole
  end.
Definition parse_addr (s : bytes) : option addr := parse_addr_scan s s.

(* net.ParseIP: ParseAddr, but a zone makes it fail *)
Definition parse_ip_legacy (s : bytes) : option addr :=
  match parse_addr s with
  | Some a => if has_zone a then None else Some a
  | None => None
  end.

(* ---------- prefixes ---------- *)

Record prefix := mkPrefix { paddr : addr; plen : N }.

Definition prefix_valid (p : prefix) : bool := plen p <=? bit_len (fam (paddr p)).

(* decimal digits only, as strconv.Atoi after ParsePrefix's guard *)
Fixpoint atoi_digits (s : bytes) (acc : N) : option N :=
  match s with
  | [] => Some acc
  | c :: r => if is_digit c then atoi_digits r (acc * 10 + (c - 48)) else None
  end.

Definition parse_prefix_bits (s : bytes) : option N :=
  match s with
  | [] => None
  | c :: r =>
    if negb (is_nil r) && ((c <? 49) || (57 <? c)) then None    (* sign or leading zero *)
    else atoi_digits s 0
  end.

(* ParsePrefix *)
Definition parse_prefix (s : bytes) : option prefix :=
  match split_last 47 s with
  | None => None                                (* no '/' *)
  | Some (l, r) =>
    match parse_addr l with
    | None => None
    | Some ip =>
      if family_eqb (fam ip) V6 && has_zone ip then None
      else match parse_prefix_bits r with
           | None => None
           | Some b => if bit_len (fam ip) <? b then None else Some (mkPrefix ip b)
           end
    end
  end.

(* mask6 n: the top n of 128 bits *)
Definition mask6 (n : N) : N := N.shiftl (N.ones n) (128 - n).

(* Addr.Prefix(b) for b in range: effective bits = b (+96 for IPv4) *)
Definition addr_prefix (a : addr) (b : N) : prefix :=
  let eff := match fam a with V4 => b + 96 | V6 => b end in
  mkPrefix (mkAddr (fam a) (N.land (abits a) (mask6 eff)) []) b.

(* Prefix.Masked *)
Definition masked (p : prefix) : prefix := addr_prefix (paddr p) (plen p).

(* Prefix.Contains *)
Definition contains (p : prefix) (a : addr) : bool :=
  if negb (prefix_valid p) || has_zone a then false
  else if negb (family_eqb (fam (paddr p)) (fam a)) then false
  else match fam a with
       | V4 => N.shiftr (N.lxor (abits a mod 2 ^ 64) (abits (paddr p) mod 2 ^ 64)) (32 - plen p)
                 mod 2 ^ 32 =? 0
       | V6 => N.land (N.lxor (abits a) (abits (paddr p))) (mask6 (plen p)) =? 0
       end.

(* ---------- net.SplitHostPort ---------- *)

Inductive shp_result :=
| ShpOk (host port : bytes)
| ShpMissingPort
| ShpTooManyColons
| ShpOther.                                     (* missing ']' / unexpected '[' / unexpected ']' *)

Definition split_host_port (hp : bytes) : shp_result :=
  match split_last 58 hp with
  | None => ShpMissingPort
  | Some (before, port) =>                      (* i = length before *)
    match hp with
    | 91 :: tl =>                               (* hostport[0] == '[' *)
      match split_first 93 tl with
      | None => ShpOther                        (* missing ']' *)
      | Some (host, after) =>                   (* end = 1 + length host; after = hostport[end+1:] *)
        match after with
        | [] => ShpMissingPort
        | c :: _ =>
          if N.of_nat (length host) + 2 =? N.of_nat (length before) then
            if mem 91 tl then ShpOther
            else if mem 93 after then ShpOther
            else ShpOk host port
          else if c =? 58 then ShpTooManyColons
          else ShpMissingPort
        end
      end
    | _ =>
      if mem 58 before then ShpTooManyColons
      else if mem 91 hp then ShpOther
      else if mem 93 hp then ShpOther
      else ShpOk before port
    end
  end.

(* ====================================================================== *)
(*                                lemmas                                   *)
(* ====================================================================== *)

Lemma family_eqb_eq a b : family_eqb a b = true <-> a = b.
Proof. destruct a, b; simpl; split; congruence. Qed.

Lemma mask6_bits n i : n <= 128 ->
  N.testbit (mask6 n) i = (128 - n <=? i) && (i <? 128).
Proof.
  intros Hn. unfold mask6.
  destruct (N.ltb_spec i (128 - n)) as [Hlt|Hge].
  - rewrite N.shiftl_spec_low by assumption.
    replace (128 - n <=? i) with false by (symmetry; apply N.leb_gt; assumption). reflexivity.
  - rewrite N.shiftl_spec_high' by assumption.
    replace (128 - n <=? i) with true by (symmetry; apply N.leb_le; assumption).
    destruct (N.ltb_spec i 128) as [H1|H1].
    + rewrite N.ones_spec_low by lia. reflexivity.
    + rewrite N.ones_spec_high by lia. reflexivity.
Qed.

(* bits of a well-formed IPv4 address above bit 31 are those of the tag *)
Lemma wf_v4_high_bits a i : wf_addr a -> fam a = V4 -> 32 <= i ->
  N.testbit (abits a) i = N.testbit 0xffff (i - 32).
Proof.
  intros [_ H] Hf Hi. destruct (H Hf) as [Hs _].
  rewrite <- Hs, N.shiftr_spec by lia. f_equal. lia.
Qed.

Lemma lxor_bit_eq a b i : N.testbit (N.lxor a b) i = false <-> N.testbit a i = N.testbit b i.
Proof. rewrite N.lxor_spec. destruct (N.testbit a i), (N.testbit b i); simpl; split; congruence. Qed.

(* IPv6 containment test <-> equal bits in the window *)
Lemma contains6_bits a p n : n <= 128 ->
  (N.land (N.lxor a p) (mask6 n) =? 0) = true <->
  (forall i, 128 - n <= i < 128 -> N.testbit a i = N.testbit p i).
Proof.
  intros Hn. rewrite N.eqb_eq. split.
  - intros H i Hi. apply lxor_bit_eq.
    assert (E : N.testbit (N.land (N.lxor a p) (mask6 n)) i = false) by (rewrite H; apply N.bits_0).
    rewrite N.land_spec, mask6_bits in E by assumption.
    replace (128 - n <=? i) with true in E by (symmetry; apply N.leb_le; lia).
    replace (i <? 128) with true in E by (symmetry; apply N.ltb_lt; lia).
    rewrite andb_true_r in E. exact E.
  - intros H. apply N.bits_inj_0. intros i.
    rewrite N.land_spec, mask6_bits by assumption.
    destruct (N.leb_spec (128 - n) i) as [H1|H1]; [|apply andb_false_r].
    destruct (N.ltb_spec i 128) as [H2|H2]; [|apply andb_false_r].
    rewrite andb_true_r. apply lxor_bit_eq. apply H. lia.
Qed.

(* IPv4 containment test as Go writes it (on the low 64 bits, truncated to uint32) *)
Lemma contains4_bits a p n : n <= 32 ->
  (N.shiftr (N.lxor (a mod 2 ^ 64) (p mod 2 ^ 64)) (32 - n) mod 2 ^ 32 =? 0) = true <->
  (forall i, 32 - n <= i < 64 - n -> N.testbit a i = N.testbit p i).
Proof.
  intros Hn. rewrite N.eqb_eq. split.
  - intros H i Hi. apply lxor_bit_eq.
    assert (E : N.testbit (N.shiftr (N.lxor (a mod 2 ^ 64) (p mod 2 ^ 64)) (32 - n) mod 2 ^ 32) (i - (32 - n)) = false)
      by (rewrite H; apply N.bits_0).
    rewrite N.mod_pow2_bits_low in E by lia.
    rewrite N.shiftr_spec in E by lia.
    replace (i - (32 - n) + (32 - n)) with i in E by lia.
    rewrite N.lxor_spec in E. rewrite !N.mod_pow2_bits_low in E by lia.
    rewrite N.lxor_spec. exact E.
  - intros H. apply N.bits_inj_0. intros j.
    destruct (N.lt_ge_cases j 32) as [Hj|Hj].
    + rewrite N.mod_pow2_bits_low by assumption.
      rewrite N.shiftr_spec by lia.
      rewrite N.lxor_spec, !N.mod_pow2_bits_low by lia.
      rewrite <- N.lxor_spec. apply lxor_bit_eq. apply H. lia.
    + apply N.mod_pow2_bits_high. assumption.
Qed.

(* Containment <-> the address has no zone, the same family, and the same leading plen bits.
   Bits are numbered from the least significant one: the leading n bits of an L-bit address are
   bits L-n .. L-1. *)
Theorem contains_iff_bits p a :
  prefix_valid p = true -> wf_addr a -> wf_addr (paddr p) ->
  (contains p a = true <->
   zone a = [] /\ fam a = fam (paddr p) /\
   forall i, bit_len (fam a) - plen p <= i < bit_len (fam a) ->
             N.testbit (abits a) i = N.testbit (abits (paddr p)) i).
Proof.
  intros Hv Hwa Hwp. unfold contains. rewrite Hv. cbn [negb orb].
  unfold has_zone. destruct (zone a) as [|z0 zr] eqn:Ez.
  2:{ split; [discriminate|]. intros [H _]. discriminate. }
  destruct (family_eqb (fam (paddr p)) (fam a)) eqn:Ef.
  2:{ cbn [negb]. split; [discriminate|]. intros [_ [H _]].
      symmetry in H. apply family_eqb_eq in H. congruence. }
  apply family_eqb_eq in Ef. cbn [negb].
  unfold prefix_valid in Hv. apply N.leb_le in Hv. rewrite Ef in Hv.
  destruct (fam a) eqn:Efa; cbn [bit_len] in *.
  - rewrite contains4_bits by assumption. split.
    + intros H. repeat split; try congruence. intros i Hi. apply H. lia.
    + intros [_ [_ H]] i Hi. destruct (N.lt_ge_cases i 32) as [Hlt|Hge].
      * apply H. lia.
      * rewrite (wf_v4_high_bits a i), (wf_v4_high_bits (paddr p) i); auto.
  - rewrite contains6_bits by assumption. split.
    + intros H. repeat split; try congruence. exact H.
    + intros [_ [_ H]]. exact H.
Qed.

(* the same, as an equation between the leading parts seen as numbers *)
Definition lead (f : family) (n : N) (x : N) : N :=
  (x mod 2 ^ bit_len f) / 2 ^ (bit_len f - n).

Lemma lead_eq_iff f n x y : n <= bit_len f ->
  lead f n x = lead f n y <->
  (forall i, bit_len f - n <= i < bit_len f -> N.testbit x i = N.testbit y i).
Proof.
  intros Hn. unfold lead. rewrite <- !N.shiftr_div_pow2. split.
  - intros H i Hi.
    assert (E : N.testbit (N.shiftr (x mod 2 ^ bit_len f) (bit_len f - n)) (i - (bit_len f - n)) =
                N.testbit (N.shiftr (y mod 2 ^ bit_len f) (bit_len f - n)) (i - (bit_len f - n))) by (rewrite H; reflexivity).
    rewrite !N.shiftr_spec in E by lia.
    replace (i - (bit_len f - n) + (bit_len f - n)) with i in E by lia.
    rewrite !N.mod_pow2_bits_low in E by lia. exact E.
  - intros H. apply N.bits_inj. intros j. rewrite !N.shiftr_spec by lia.
    destruct (N.lt_ge_cases (j + (bit_len f - n)) (bit_len f)) as [Hlt|Hge].
    + rewrite !N.mod_pow2_bits_low by assumption. apply H. lia.
    + rewrite !N.mod_pow2_bits_high by assumption. reflexivity.
Qed.

Theorem contains_iff_lead p a :
  prefix_valid p = true -> wf_addr a -> wf_addr (paddr p) ->
  (contains p a = true <->
   zone a = [] /\ fam a = fam (paddr p) /\
   lead (fam a) (plen p) (abits a) = lead (fam a) (plen p) (abits (paddr p))).
Proof.
  intros Hv Hwa Hwp. rewrite contains_iff_bits by assumption.
  split; intros [H1 [H2 H3]]; repeat split; auto.
  - apply lead_eq_iff; [|exact H3]. unfold prefix_valid in Hv. apply N.leb_le in Hv. rewrite H2. exact Hv.
  - apply lead_eq_iff; [|exact H3]. unfold prefix_valid in Hv. apply N.leb_le in Hv. rewrite H2. exact Hv.
Qed.

(* ---------- masking ---------- *)

Lemma masked_bits_in p i : plen p <= bit_len (fam (paddr p)) ->
  N.testbit (abits (paddr (masked p))) i =
  N.testbit (abits (paddr p)) i && (bit_len (fam (paddr p)) - plen p <=? i) && (i <? 128).
Proof.
  intros Hn. unfold masked, addr_prefix. cbn [paddr abits].
  rewrite N.land_spec. destruct (fam (paddr p)); cbn [bit_len] in *.
  - rewrite mask6_bits by lia. replace (128 - (plen p + 96)) with (32 - plen p) by lia.
    rewrite andb_assoc. reflexivity.
  - rewrite mask6_bits by lia. rewrite andb_assoc. reflexivity.
Qed.

Lemma masked_fam p : fam (paddr (masked p)) = fam (paddr p).
Proof. reflexivity. Qed.
Lemma masked_plen p : plen (masked p) = plen p.
Proof. reflexivity. Qed.
Lemma masked_zone p : zone (paddr (masked p)) = [].
Proof. reflexivity. Qed.
Lemma masked_valid p : prefix_valid (masked p) = prefix_valid p.
Proof. reflexivity. Qed.

(* host bits of a masked prefix are zero *)
Theorem masked_low_bits_zero p i :
  prefix_valid p = true -> i < bit_len (fam (paddr p)) - plen p ->
  N.testbit (abits (paddr (masked p))) i = false.
Proof.
  intros Hv Hi. apply N.leb_le in Hv. rewrite masked_bits_in by assumption.
  replace (bit_len (fam (paddr p)) - plen p <=? i) with false by (symmetry; apply N.leb_gt; assumption).
  rewrite andb_false_r. reflexivity.
Qed.

Lemma bound_of_bits x n : (forall i, n <= i -> N.testbit x i = false) -> x < 2 ^ n.
Proof.
  intros H. destruct (N.eq_dec x 0) as [->|Hx]; [apply N.neq_0_lt_0, N.pow_nonzero; lia|].
  apply N.log2_lt_pow2; [lia|].
  destruct (N.lt_ge_cases (N.log2 x) n) as [Hl|Hl]; [assumption|].
  specialize (H _ Hl). rewrite N.bit_log2 in H by assumption. discriminate.
Qed.

Lemma bits_above x n i : x < 2 ^ n -> n <= i -> N.testbit x i = false.
Proof.
  intros Hx Hi. destruct (N.eq_dec x 0) as [->|Hx0]; [apply N.bits_0|].
  apply N.bits_above_log2. apply N.log2_lt_pow2 in Hx; lia.
Qed.

Lemma masked_wf p : prefix_valid p = true -> wf_addr (paddr p) -> wf_addr (paddr (masked p)).
Proof.
  intros Hv [Hb Hf]. apply N.leb_le in Hv. split.
  - apply bound_of_bits. intros i Hi. rewrite masked_bits_in by assumption.
    replace (i <? 128) with false by (symmetry; apply N.ltb_ge; assumption). apply andb_false_r.
  - rewrite masked_fam. intros E. split; [|reflexivity]. destruct (Hf E) as [Hs _].
    apply N.bits_inj. intros j. rewrite N.shiftr_spec by lia.
    rewrite masked_bits_in by assumption. rewrite E in *. cbn [bit_len] in *.
    replace (32 - plen p <=? j + 32) with true by (symmetry; apply N.leb_le; lia).
    rewrite andb_true_r. rewrite <- Hs, N.shiftr_spec by lia.
    destruct (N.ltb_spec (j + 32) 128) as [H1|H1]; [apply andb_true_r|].
    rewrite andb_false_r. symmetry. apply (bits_above _ 128); assumption.
Qed.

(* masking a prefix does not change what it contains *)
Theorem contains_masked p a : prefix_valid p = true -> contains (masked p) a = contains p a.
Proof.
  intros Hv. unfold contains. rewrite masked_valid, masked_fam, masked_plen.
  destruct (negb (prefix_valid p) || has_zone a); [reflexivity|].
  destruct (negb (family_eqb (fam (paddr p)) (fam a))) eqn:Ef; [reflexivity|].
  apply negb_false_iff, family_eqb_eq in Ef. apply N.leb_le in Hv.
  apply eq_true_iff_eq. destruct (fam a) eqn:Efa; rewrite Ef in Hv; cbn [bit_len] in Hv.
  - rewrite !contains4_bits by assumption. split; intros H i Hi.
    + rewrite H by assumption. rewrite masked_bits_in by (rewrite Ef; assumption). rewrite Ef. cbn [bit_len].
      replace (32 - plen p <=? i) with true by (symmetry; apply N.leb_le; lia).
      replace (i <? 128) with true by (symmetry; apply N.ltb_lt; lia).
      rewrite !andb_true_r. reflexivity.
    + rewrite H by assumption. rewrite masked_bits_in by (rewrite Ef; assumption). rewrite Ef. cbn [bit_len].
      replace (32 - plen p <=? i) with true by (symmetry; apply N.leb_le; lia).
      replace (i <? 128) with true by (symmetry; apply N.ltb_lt; lia).
      rewrite !andb_true_r. reflexivity.
  - rewrite !contains6_bits by assumption. split; intros H i Hi.
    + rewrite H by assumption. rewrite masked_bits_in by (rewrite Ef; assumption). rewrite Ef. cbn [bit_len].
      replace (128 - plen p <=? i) with true by (symmetry; apply N.leb_le; lia).
      replace (i <? 128) with true by (symmetry; apply N.ltb_lt; lia).
      rewrite !andb_true_r. reflexivity.
    + rewrite H by assumption. rewrite masked_bits_in by (rewrite Ef; assumption). rewrite Ef. cbn [bit_len].
      replace (128 - plen p <=? i) with true by (symmetry; apply N.leb_le; lia).
      replace (i <? 128) with true by (symmetry; apply N.ltb_lt; lia).
      rewrite !andb_true_r. reflexivity.
Qed.

(* ---------- unmap / zones keep addresses well-formed ---------- *)

Lemma unmap_wf a : wf_addr a -> wf_addr (unmap a).
Proof.
  intros [Hb Hf]. unfold unmap. destruct (is4in6 a) eqn:E; [|split; assumption].
  unfold is4in6 in E. destruct (fam a); [discriminate|]. apply N.eqb_eq in E.
  split; [exact Hb|]. intros _. split; [exact E|reflexivity].
Qed.

Lemma with_zone_wf z a : wf_addr a -> wf_addr (with_zone z a).
Proof.
  intros H. unfold with_zone. destruct (fam a) eqn:E; [exact H|]. destruct H as [Hb _].
  split; [exact Hb|]. cbn [fam]. discriminate.
Qed.

Lemma strip_zone_zone a : wf_addr a -> zone (strip_zone a) = [].
Proof.
  intros [_ Hf]. unfold strip_zone, with_zone. destruct (fam a) eqn:E; [apply Hf; reflexivity|reflexivity].
Qed.

Lemma unmap_abits a : abits (unmap a) = abits a.
Proof. unfold unmap. destruct (is4in6 a); reflexivity. Qed.
Lemma with_zone_abits z a : abits (with_zone z a) = abits a.
Proof. unfold with_zone. destruct (fam a); reflexivity. Qed.
Lemma with_zone_fam z a : fam (with_zone z a) = fam a.
Proof. unfold with_zone. destruct (fam a) eqn:E; [assumption|reflexivity]. Qed.

(* an IPv4-mapped IPv6 address and the IPv4 address it embeds are the same after Unmap,
   whatever zone the mapped one carried *)
Lemma unmap_mapped n z : N.shiftr n 32 = 0xffff ->
  unmap (mkAddr V6 n z) = mkAddr V4 n [].
Proof. intros H. unfold unmap, is4in6. cbn [fam abits]. rewrite H. reflexivity. Qed.

Lemma unmap_v4 a : fam a = V4 -> unmap a = a.
Proof. intros H. unfold unmap, is4in6. rewrite H. reflexivity. Qed.

(* ---------- the parsers produce well-formed addresses ---------- *)

Ltac Zify.zify_post_hook ::= Z.div_mod_to_equations.

Definition small (l : list N) : Prop := Forall (fun b => b < 256) l.

Lemma be_val_bound l : forall acc, small l -> be_val l acc < (acc + 1) * 256 ^ N.of_nat (length l).
Proof.
  induction l as [|b r IH]; intros acc H; cbn [be_val length].
  - cbn. lia.
  - inversion H as [|? ? Hb Hr]; subst. specialize (IH (acc * 256 + b) Hr).
    rewrite Nat2N.inj_succ, N.pow_succ_r'. nia.
Qed.

Lemma be_val_app l1 : forall l2 acc, be_val (l1 ++ l2) acc = be_val l2 (be_val l1 acc).
Proof. induction l1 as [|b r IH]; intros; cbn [be_val app]; [reflexivity|apply IH]. Qed.

Lemma be_val_zeros n : forall acc, acc = 0 -> be_val (repeat 0 n) acc = 0.
Proof. induction n as [|n IH]; intros acc ->; cbn [repeat be_val]; [reflexivity|apply IH; reflexivity]. Qed.

Lemma v4_loop_ok s : forall val dl pos acc f,
  v4_loop s val dl pos acc = Some f -> val <= 255 -> small acc -> N.of_nat (length acc) = pos -> pos <= 3 ->
  length f = 4%nat /\ small f.
Proof.
  induction s as [|c r IH]; intros val dl pos acc f H Hval Hacc Hlen Hpos; cbn [v4_loop] in H.
  - destruct (N.ltb_spec pos 3) as [Hlt|Hge]; [discriminate|]. inversion H; subst f. split.
    + rewrite app_length. cbn [length]. lia.
    + apply Forall_app. split; [assumption|]. constructor; [lia|constructor].
  - destruct (is_digit c) eqn:Ed.
    + destruct ((dl =? 1) && (val =? 0)); [discriminate|].
      destruct (N.ltb_spec 255 (val * 10 + (c - 48))) as [Hbig|Hok]; [discriminate|].
      eapply IH; [exact H|exact Hok|exact Hacc|exact Hlen|exact Hpos].
    + destruct (c =? 46); [|discriminate].
      destruct ((dl =? 0) || is_nil r); [discriminate|].
      destruct (N.eqb_spec pos 3) as [->|Hne]; [discriminate|].
      eapply IH; [exact H| | | | ].
      * lia.
      * apply Forall_app. split; [assumption|]. constructor; [lia|constructor].
      * rewrite app_length. cbn [length]. lia.
      * lia.
Qed.

Lemma parse_v4_fields_ok s f : parse_v4_fields s = Some f -> length f = 4%nat /\ small f.
Proof. intros H. eapply v4_loop_ok; [exact H|lia|constructor|reflexivity|lia]. Qed.

Lemma parse_ipv4_inv s a : parse_ipv4 s = Some a ->
  exists f, parse_v4_fields s = Some f /\ a = mkAddr V4 (v4tag + be_val f 0) [].
Proof.
  unfold parse_ipv4. destruct (parse_v4_fields s) as [f|]; [|discriminate].
  intros H. exists f. split; [reflexivity|]. congruence.
Qed.

Lemma parse_ipv4_fam s a : parse_ipv4 s = Some a -> fam a = V4.
Proof. intros H. apply parse_ipv4_inv in H. destruct H as [f [_ ->]]. reflexivity. Qed.

Lemma parse_ipv4_wf s a : parse_ipv4 s = Some a -> wf_addr a.
Proof.
  intros H. apply parse_ipv4_inv in H. destruct H as [f [E ->]].
  apply parse_v4_fields_ok in E. destruct E as [Hl Hs].
  pose proof (be_val_bound f 0 Hs) as Hb. rewrite Hl in Hb. change (256 ^ N.of_nat 4) with 4294967296 in Hb.
  unfold wf_addr. cbn [fam abits zone]. split.
  - unfold v4tag. change (2 ^ 128) with 340282366920938463463374607431768211456. lia.
  - intros _. split; [|reflexivity]. rewrite N.shiftr_div_pow2. unfold v4tag.
    change (2 ^ 32) with 4294967296. lia.
Qed.

Lemma hex_val_lt c d : hex_val c = Some d -> d < 16.
Proof.
  unfold hex_val. intros H.
  destruct ((48 <=? c) && (c <=? 57)) eqn:E1; [inversion H; lia|].
  destruct ((97 <=? c) && (c <=? 102)) eqn:E2; [inversion H; lia|].
  destruct ((65 <=? c) && (c <=? 70)) eqn:E3; [inversion H; lia|discriminate].
Qed.

Lemma span_hex_mono s : forall acc n v m r, span_hex s acc n = (v, m, r) -> n <= m.
Proof.
  induction s as [|c s IH]; intros acc n v m r H; cbn [span_hex] in H.
  - inversion H; lia.
  - destruct (hex_val c); [apply IH in H; lia|inversion H; lia].
Qed.

Lemma span_hex_bound s : forall acc n v m r, span_hex s acc n = (v, m, r) -> v < (acc + 1) * 16 ^ (m - n).
Proof.
  induction s as [|c s IH]; intros acc n v m r H; cbn [span_hex] in H.
  - inversion H; subst. rewrite N.sub_diag. cbn. lia.
  - destruct (hex_val c) as [d|] eqn:Ed.
    + pose proof (hex_val_lt _ _ Ed) as Hd. pose proof (span_hex_mono _ _ _ _ _ _ H) as Hm.
      apply IH in H. replace (m - n) with (N.succ (m - (n + 1))) by lia. rewrite N.pow_succ_r'. nia.
    + inversion H; subst. rewrite N.sub_diag. cbn. lia.
Qed.

Definition v6_inv (ip : list N) : Prop :=
  small ip /\ (exists k, length ip = (2 * k)%nat) /\ (length ip <= 16)%nat.

Lemma v6_inv_group ip v : v6_inv ip -> (length ip < 16)%nat -> v < 65536 ->
  v6_inv (ip ++ [v / 256; v mod 256]).
Proof.
  intros [Hs [[k Hk] Hl]] Hlt Hv. repeat split.
  - apply Forall_app. split; [assumption|]. constructor; [lia|]. constructor; [lia|constructor].
  - exists (S k). rewrite app_length. cbn [length]. lia.
  - rewrite app_length. cbn [length]. lia.
Qed.

Lemma v6_loop_inv fuel : forall s ip ell ip' ell' r,
  v6_loop fuel s ip ell = Some (ip', ell', r) -> v6_inv ip -> v6_inv ip'.
Proof.
  induction fuel as [|fuel IH]; intros s ip ell ip' ell' r H Hinv.
  - cbn [v6_loop] in H. destruct (16 <=? N.of_nat (length ip)); [|discriminate]. inversion H; subst; assumption.
  - cbn [v6_loop] in H.
    destruct (N.leb_spec 16 (N.of_nat (length ip))) as [Hge|Hlt]; [inversion H; subst; assumption|].
    destruct (span_hex s 0 0) as [[acc off] rest] eqn:Esp.
    destruct (N.ltb_spec 4 off) as [H4|H4]; [discriminate|].
    destruct (N.eqb_spec off 0) as [H0|H0]; [discriminate|].
    assert (Hacc : acc < 65536).
    { pose proof (span_hex_bound _ _ _ _ _ _ Esp) as Hb. rewrite N.sub_0_r in Hb.
      assert (16 ^ off <= 16 ^ 4) by (apply N.pow_le_mono_r; lia).
      change (16 ^ 4) with 65536 in *. lia. }
    assert (Hg : v6_inv (ip ++ [acc / 256; acc mod 256])) by (apply v6_inv_group; [assumption|lia|assumption]).
    destruct rest as [|c r1].
    + inversion H; subst. assumption.
    + destruct (N.eqb_spec c 46) as [->|Hc].
      * destruct (opt_none ell && negb (N.of_nat (length ip) =? 12)); [discriminate|].
        destruct (N.ltb_spec 16 (N.of_nat (length ip) + 4)) as [Hbig|Hok]; [discriminate|].
        destruct (parse_v4_fields s) as [f|] eqn:Ef; [|discriminate].
        inversion H; subst. apply parse_v4_fields_ok in Ef. destruct Ef as [Hl Hs].
        destruct Hinv as [Hs0 [[k Hk] Hl0]]. repeat split.
        -- apply Forall_app; split; assumption.
        -- exists (k + 2)%nat. rewrite app_length. lia.
        -- rewrite app_length. lia.
      * assert (E : match c with 46 => true | _ => false end = false).
        { destruct c as [|p]; [reflexivity|].
          do 6 (destruct p as [p|p|]; try reflexivity). all: try (exfalso; apply Hc; reflexivity). }
        clear E.
        (* the match on the literal 46 takes the default branch *)
        assert (H' : (if negb (c =? 58) then None
                      else match r1 with
                           | [] => None
                           | c2 :: r2 =>
                             if c2 =? 58 then
                               match ell with
                               | Some _ => None
                               | None => match r2 with
                                         | [] => Some (ip ++ [acc / 256; acc mod 256], Some (N.of_nat (length ip) + 2), [])
                                         | _ => v6_loop fuel r2 (ip ++ [acc / 256; acc mod 256]) (Some (N.of_nat (length ip) + 2))
                                         end
                               end
                             else v6_loop fuel r1 (ip ++ [acc / 256; acc mod 256]) ell
                           end) = Some (ip', ell', r)).
        { destruct c as [|p]; [exact H|].
          do 6 (destruct p as [p|p|]; try exact H). exfalso; apply Hc; reflexivity. }
        clear H. destruct (negb (c =? 58)); [discriminate|].
        destruct r1 as [|c2 r2]; [discriminate|].
        destruct (c2 =? 58).
        -- destruct ell; [discriminate|]. destruct r2.
           ++ inversion H'; subst. assumption.
           ++ eapply IH; [exact H'|exact Hg].
        -- eapply IH; [exact H'|exact Hg].
Qed.

Lemma expand_ok ip e : v6_inv ip -> length (expand_ellipsis ip e) = 16%nat /\ small (expand_ellipsis ip e).
Proof.
  intros [Hs [_ Hl]]. unfold expand_ellipsis. split.
  - rewrite !app_length, repeat_length.
    pose proof (firstn_skipn (N.to_nat e) ip) as E. apply (f_equal (@length N)) in E.
    rewrite app_length in E. lia.
  - unfold small in Hs. rewrite <- (firstn_skipn (N.to_nat e) ip) in Hs. apply Forall_app in Hs. destruct Hs as [Hs1 Hs2].
    apply Forall_app. split; [assumption|].
    apply Forall_app. split; [|assumption].
    apply Forall_forall. intros x Hx. apply repeat_spec in Hx. subst. lia.
Qed.

Lemma be_val_16 l : length l = 16%nat -> small l -> be_val l 0 < 2 ^ 128.
Proof.
  intros Hl Hs. pose proof (be_val_bound l 0 Hs) as Hb. rewrite Hl in Hb.
  change (256 ^ N.of_nat 16) with (2 ^ 128) in Hb. lia.
Qed.

Lemma v6_finish_bound res n : v6_inv (fst (fst res)) -> v6_finish res = Some n -> n < 2 ^ 128.
Proof.
  destruct res as [[ip ell] rest]. cbn [fst]. intros Hinv. unfold v6_finish.
  destruct (negb (is_nil rest)); [discriminate|].
  destruct (N.ltb_spec (N.of_nat (length ip)) 16) as [Hlt|Hge].
  - destruct ell as [e|]; [|discriminate]. intros H. injection H as <-.
    destruct (expand_ok ip e Hinv) as [Hl Hs]. apply be_val_16; assumption.
  - destruct ell; [discriminate|]. intros H. injection H as <-.
    destruct Hinv as [Hs [_ Hl]]. apply be_val_16; [lia|assumption].
Qed.

Lemma v6_inv_nil : v6_inv [].
Proof. repeat split; [constructor|exists 0%nat; reflexivity|cbn; lia]. Qed.

Lemma parse_ipv6_unfold inp :
  parse_ipv6 inp =
  match (match split_first 37 inp with
         | Some (s, z) => if is_nil z then None else Some (s, z)
         | None => Some (inp, [])
         end) with
  | None => None
  | Some (s, z) => match v6_body s with Some n => Some (mkAddr V6 n z) | None => None end
  end.
Proof. reflexivity. Qed.

Lemma v6_run_bound r ell n : v6_run r ell = Some n -> n < 2 ^ 128.
Proof.
  unfold v6_run. intros Hr. destruct (v6_loop 9 r [] ell) as [[[ip e] rest]|] eqn:El; [|discriminate].
  eapply v6_finish_bound; [|exact Hr]. cbn [fst]. eapply v6_loop_inv; [exact El|exact v6_inv_nil].
Qed.

Lemma v6_body_bound s n : v6_body s = Some n -> n < 2 ^ 128.
Proof.
  unfold v6_body. intros H.
  destruct s as [|c1 s1]; [eapply v6_run_bound; exact H|].
  destruct (N.eqb_spec c1 58) as [->|Hc1].
  - destruct s1 as [|c2 s2]; [eapply v6_run_bound; exact H|].
    destruct (N.eqb_spec c2 58) as [->|Hc2].
    + destruct s2; [injection H as <-; cbn; lia|eapply v6_run_bound; exact H].
    + destruct c2 as [|p]; [eapply v6_run_bound; exact H|].
      do 6 (destruct p as [p|p|]; try (eapply v6_run_bound; exact H)). exfalso; apply Hc2; reflexivity.
  - destruct c1 as [|p]; [eapply v6_run_bound; exact H|].
    do 6 (destruct p as [p|p|]; try (eapply v6_run_bound; exact H)). exfalso; apply Hc1; reflexivity.
Qed.

Lemma parse_ipv6_fam s a : parse_ipv6 s = Some a -> fam a = V6.
Proof.
  rewrite parse_ipv6_unfold.
  destruct (match split_first 37 s with Some (s0, z) => if is_nil z then None else Some (s0, z) | None => Some (s, []) end) as [[s0 z]|]; [|discriminate].
  destruct (v6_body s0); [|discriminate]. intros H. injection H as <-. reflexivity.
Qed.

Lemma parse_ipv6_wf s a : parse_ipv6 s = Some a -> wf_addr a.
Proof.
  rewrite parse_ipv6_unfold.
  destruct (match split_first 37 s with Some (s0, z) => if is_nil z then None else Some (s0, z) | None => Some (s, []) end) as [[s0 z]|]; [|discriminate].
  destruct (v6_body s0) as [n|] eqn:E; [|discriminate]. intros H. injection H as <-.
  split; [cbn [abits]; eapply v6_body_bound; exact E|cbn [fam]; discriminate].
Qed.

Lemma parse_addr_scan_cases s w a : parse_addr_scan s w = Some a ->
  (parse_ipv4 w = Some a) \/ (parse_ipv6 w = Some a).
Proof.
  induction s as [|c r IH]; cbn [parse_addr_scan]; [discriminate|].
  destruct (c =? 46); [left; assumption|].
  destruct (c =? 58); [right; assumption|].
  destruct (c =? 37); [discriminate|assumption].
Qed.

Theorem parse_addr_wf s a : parse_addr s = Some a -> wf_addr a.
Proof.
  intros H. apply parse_addr_scan_cases in H. destruct H as [H|H];
  [eapply parse_ipv4_wf|eapply parse_ipv6_wf]; exact H.
Qed.

(* ---------- ParsePrefix ---------- *)

Lemma parse_prefix_inv s p : parse_prefix s = Some p ->
  exists l r, split_last 47 s = Some (l, r) /\ parse_addr l = Some (paddr p) /\
              zone (paddr p) = [] /\ parse_prefix_bits r = Some (plen p) /\ plen p <= bit_len (fam (paddr p)).
Proof.
  unfold parse_prefix. destruct (split_last 47 s) as [[l r]|]; [|discriminate].
  destruct (parse_addr l) as [ip|] eqn:Ea; [|discriminate].
  destruct (family_eqb (fam ip) V6 && has_zone ip) eqn:Ez; [discriminate|].
  destruct (parse_prefix_bits r) as [b|] eqn:Eb; [|discriminate].
  destruct (N.ltb_spec (bit_len (fam ip)) b) as [Hb|Hb]; [discriminate|].
  intros H. injection H as <-. exists l, r. cbn [paddr plen].
  split; [reflexivity|]. split; [exact Ea|]. split; [|split; [exact Eb|exact Hb]].
  pose proof (parse_addr_wf _ _ Ea) as [_ Hw]. unfold has_zone in Ez.
  destruct (fam ip) eqn:Ef; [apply Hw; reflexivity|].
  cbn [family_eqb andb] in Ez. destruct (zone ip); [reflexivity|discriminate].
Qed.

Lemma parse_prefix_valid s p : parse_prefix s = Some p -> prefix_valid p = true /\ wf_addr (paddr p).
Proof.
  intros H. apply parse_prefix_inv in H. destruct H as [l [r [_ [Ha [_ [_ Hb]]]]]]. split.
  - apply N.leb_le. assumption.
  - eapply parse_addr_wf; exact Ha.
Qed.

(* ---------- a zone suffix only sets the zone ---------- *)

Lemma split_first_nomem c s : mem c s = false -> split_first c s = None.
Proof.
  induction s as [|x r IH]; cbn [mem split_first]; [reflexivity|].
  intros H. apply orb_false_iff in H. destruct H as [H1 H2]. rewrite H1, (IH H2). reflexivity.
Qed.

Lemma split_first_app c s t : mem c s = false -> split_first c (s ++ c :: t) = Some (s, t).
Proof.
  induction s as [|x r IH]; cbn [mem split_first app].
  - intros _. rewrite N.eqb_refl. reflexivity.
  - intros H. apply orb_false_iff in H. destruct H as [H1 H2]. rewrite H1, (IH H2). reflexivity.
Qed.

Lemma scan_v6 s : forall w a, parse_addr_scan s w = Some a -> fam a = V6 ->
  parse_ipv6 w = Some a /\ forall t w', parse_addr_scan (s ++ t) w' = parse_ipv6 w'.
Proof.
  induction s as [|c r IH]; intros w a H Hf; cbn [parse_addr_scan] in H; [discriminate|].
  cbn [app parse_addr_scan].
  destruct (c =? 46). { apply parse_ipv4_fam in H. congruence. }
  destruct (c =? 58). { split; [assumption|reflexivity]. }
  destruct (c =? 37); [discriminate|]. apply IH; assumption.
Qed.

Theorem parse_addr_zone s z a :
  mem 37 s = false -> z <> [] -> parse_addr s = Some a -> fam a = V6 ->
  parse_addr (s ++ 37 :: z) = Some (with_zone z a).
Proof.
  intros Hm Hz H Hf. unfold parse_addr in *. destruct (scan_v6 _ _ _ H Hf) as [H6 Hscan].
  rewrite Hscan. rewrite parse_ipv6_unfold in *.
  rewrite split_first_app by assumption. rewrite split_first_nomem in H6 by assumption.
  destruct z as [|z0 zr]; [congruence|]. cbn [is_nil].
  destruct (v6_body s) as [n|]; [|discriminate]. injection H6 as <-. reflexivity.
Qed.

(* ---------- "::ffff:" ++ dotted quad is the IPv4-mapped form of the dotted quad ---------- *)

Lemma is_digit_hex c : is_digit c = true -> hex_val c = Some (c - 48).
Proof. unfold is_digit, hex_val. intros ->. reflexivity. Qed.

Lemma v4_loop_chars s : forall val dl pos acc f,
  v4_loop s val dl pos acc = Some f -> Forall (fun c => is_digit c = true \/ c = 46) s.
Proof.
  induction s as [|c r IH]; intros val dl pos acc f H; [constructor|]. cbn [v4_loop] in H.
  destruct (is_digit c) eqn:Ed.
  - destruct ((dl =? 1) && (val =? 0)); [discriminate|].
    destruct (255 <? val * 10 + (c - 48)); [discriminate|].
    constructor; [left; exact Ed|eapply IH; exact H].
  - destruct (N.eqb_spec c 46) as [->|]; [|discriminate].
    destruct ((dl =? 0) || is_nil r); [discriminate|]. destruct (pos =? 3); [discriminate|].
    constructor; [right; reflexivity|eapply IH; exact H].
Qed.

(* relation between the value of the current octet and its number of digits *)
Definition octet_inv (val dl : N) : Prop :=
  (dl = 0 /\ val = 0) \/ (dl = 1 /\ val <= 9) \/ (dl = 2 /\ 10 <= val <= 99) \/ (dl = 3 /\ 100 <= val <= 255).

Lemma is_digit_range c : is_digit c = true -> 48 <= c <= 57.
Proof. unfold is_digit. intros H. apply andb_true_iff in H. destruct H as [H1 H2]. apply N.leb_le in H1, H2. lia. Qed.

(* while an octet of a dotted quad is being read (a dot is still to come), the hex scan of
   parseIPv6 stops at that dot after at most 3 - dl further digits *)
Lemma v4_run_hex s : forall val dl pos acc f hacc hn,
  v4_loop s val dl pos acc = Some f -> pos < 3 -> octet_inv val dl ->
  exists v m r', span_hex s hacc hn = (v, m, 46 :: r') /\ (m - hn) + dl <= 3 /\ hn <= m /\ (dl = 0 -> hn < m).
Proof.
  induction s as [|c r IH]; intros val dl pos acc f hacc hn H Hpos Hinv; cbn [v4_loop] in H.
  - destruct (N.ltb_spec pos 3); [discriminate|lia].
  - destruct (is_digit c) eqn:Ed.
    + destruct ((dl =? 1) && (val =? 0)) eqn:Ez; [discriminate|].
      destruct (N.ltb_spec 255 (val * 10 + (c - 48))) as [Hbig|Hok]; [discriminate|].
      pose proof (is_digit_range _ Ed) as Hc.
      assert (Hinv' : octet_inv (val * 10 + (c - 48)) (dl + 1)).
      { unfold octet_inv in *. destruct Hinv as [[-> ->]|[[-> Hv]|[[-> Hv]|[-> Hv]]]].
        - right; left. split; lia.
        - right; right; left. split; [lia|]. destruct (N.eqb_spec val 0) as [->|]; [discriminate|]. lia.
        - right; right; right. split; lia.
        - lia. }
      destruct (IH _ _ _ _ _ (hacc * 16 + (c - 48)) (hn + 1) H Hpos Hinv') as [v [m [r' [Hs [H1 [H2 H3]]]]]].
      exists v, m, r'. cbn [span_hex]. rewrite (is_digit_hex _ Ed). split; [exact Hs|]. repeat split; lia.
    + destruct (N.eqb_spec c 46) as [->|]; [|discriminate].
      destruct (N.eqb_spec dl 0) as [->|Hdl]; [discriminate|]. cbn [orb] in H.
      exists hacc, hn, r. cbn [span_hex]. change (hex_val 46) with (@None N). split; [reflexivity|].
      unfold octet_inv in Hinv. repeat split; lia.
Qed.

Lemma parse_v4_fields_nonempty s f : parse_v4_fields s = Some f -> s <> [].
Proof. intros H ->. discriminate. Qed.

Lemma mem_digits_dots c s : Forall (fun c => is_digit c = true \/ c = 46) s ->
  is_digit c = false -> c <> 46 -> mem c s = false.
Proof.
  intros H Hd Hc. induction H as [|x r Hx Hr IH]; [reflexivity|]. cbn [mem]. rewrite IH, orb_false_r.
  apply N.eqb_neq. intros ->. destruct Hx; congruence.
Qed.

(* one turn of the parseIPv6 loop, for a hex group followed by ":x" (x not a colon) *)
Lemma v6_step_colon fuel s ip ell v off c2 r2 :
  span_hex s 0 0 = (v, off, 58 :: c2 :: r2) -> (4 <? off) = false -> (off =? 0) = false ->
  (16 <=? N.of_nat (length ip)) = false -> (c2 =? 58) = false ->
  v6_loop (S fuel) s ip ell = v6_loop fuel (c2 :: r2) (ip ++ [v / 256; v mod 256]) ell.
Proof.
  intros Hs H4 H0 H16 Hc. cbn [v6_loop]. rewrite H16, Hs, H4, H0. cbv beta iota.
  change (58 =? 58) with true. cbn [negb]. rewrite Hc. reflexivity.
Qed.

(* ... and for a hex group that turns out to start the embedded IPv4 tail *)
Lemma v6_step_v4tail fuel s ip ell v off r' f :
  span_hex s 0 0 = (v, off, 46 :: r') -> (4 <? off) = false -> (off =? 0) = false ->
  (16 <=? N.of_nat (length ip)) = false ->
  (opt_none ell && negb (N.of_nat (length ip) =? 12)) = false ->
  (16 <? N.of_nat (length ip) + 4) = false ->
  parse_v4_fields s = Some f ->
  v6_loop (S fuel) s ip ell = Some (ip ++ f, ell, []).
Proof.
  intros Hs H4 H0 H16 He Hroom Hp. cbn [v6_loop]. rewrite H16, Hs, H4, H0. cbv beta iota.
  rewrite He, Hroom, Hp. reflexivity.
Qed.

Definition mapped_prefix : bytes := [58; 58; 102; 102; 102; 102; 58].   (* "::ffff:" *)

Theorem parse_addr_mapped d a :
  parse_addr d = Some a -> fam a = V4 ->
  parse_addr (mapped_prefix ++ d) = Some (mkAddr V6 (abits a) []).
Proof.
  intros H Hf. unfold parse_addr in H. apply parse_addr_scan_cases in H.
  destruct H as [H|H]; [|apply parse_ipv6_fam in H; congruence].
  apply parse_ipv4_inv in H. destruct H as [f [Hp ->]]. cbn [abits].
  pose proof (v4_loop_chars _ _ _ _ _ _ Hp) as Hch.
  assert (Hne : d <> []) by (eapply parse_v4_fields_nonempty; exact Hp).
  destruct d as [|c2 r2]; [congruence|].
  (* dispatch: first special character is ':' *)
  unfold parse_addr, mapped_prefix. cbn [app parse_addr_scan]. change (58 =? 46) with false. change (58 =? 58) with true.
  cbn iota. rewrite parse_ipv6_unfold.
  (* no zone *)
  assert (Hz : mem 37 (58 :: 58 :: 102 :: 102 :: 102 :: 102 :: 58 :: c2 :: r2) = false).
  { cbn [mem]. change (58 =? 37) with false. change (102 =? 37) with false. cbn [orb].
    apply (mem_digits_dots 37 (c2 :: r2) Hch); [reflexivity|discriminate]. }
  rewrite (split_first_nomem _ _ Hz).
  (* the body *)
  assert (Hb : v6_body (58 :: 58 :: 102 :: 102 :: 102 :: 102 :: 58 :: c2 :: r2) = Some (v4tag + be_val f 0)).
  { cbn [v6_body]. unfold v6_run.
    assert (Hc2 : (c2 =? 58) = false).
    { inversion Hch as [|? ? Hx _]; subst. apply N.eqb_neq. intros ->. destruct Hx as [Hx|Hx]; discriminate. }
    (* first group: ffff *)
    assert (E1 : v6_loop 9 (102 :: 102 :: 102 :: 102 :: 58 :: c2 :: r2) [] (Some 0) =
                 v6_loop 8 (c2 :: r2) [255; 255] (Some 0)).
    { apply (v6_step_colon 8 _ [] (Some 0) 65535 4 c2 r2); try reflexivity. exact Hc2. }
    rewrite E1.
    (* second group: the dotted quad *)
    destruct (v4_run_hex (c2 :: r2) 0 0 0 [] f 0 0 Hp ltac:(lia) ltac:(left; split; reflexivity))
      as [v [m [r' [Hs [H1 [H2 H3]]]]]].
    assert (E2 : v6_loop 8 (c2 :: r2) [255; 255] (Some 0) = Some ([255; 255] ++ f, Some 0, [])).
    { apply (v6_step_v4tail 7 _ _ _ v m r' f); try reflexivity; try assumption.
      - apply N.ltb_ge; lia.
      - apply N.eqb_neq. specialize (H3 eq_refl). lia. }
    rewrite E2. unfold v6_finish. cbn [is_nil negb].
    destruct (parse_v4_fields_ok _ _ Hp) as [Hl _].
    replace (N.of_nat (length ([255; 255] ++ f)) <? 16) with true
      by (symmetry; apply N.ltb_lt; rewrite app_length, Hl; cbn; lia).
    f_equal. unfold expand_ellipsis. cbn [N.to_nat firstn skipn app].
    rewrite be_val_app, be_val_zeros by reflexivity.
    destruct f as [|a0 [|a1 [|a2 [|a3 [|]]]]]; try discriminate.
    cbn [be_val app]. unfold v4tag. lia. }
  rewrite Hb. reflexivity.
Qed.
