(* Executable SHA-1 over bytes-as-N; validated by FIPS vectors below and by correspondence with Go crypto/sha1 (C09, C40). *)
From Coq Require Import List NArith Lia.
Import ListNotations.
Open Scope N_scope.

Definition w32 (x : N) : N := x mod 4294967296.
Definition rotl (n x : N) : N := w32 (N.lor (N.shiftl x n) (N.shiftr x (32 - n))).
Definition add32 (a b : N) : N := w32 (a + b).
Definition not32 (x : N) : N := 4294967295 - x.

Fixpoint be_bytes (n : nat) (x : N) : list N :=   (* n bytes big-endian *)
  match n with O => [] | S k => be_bytes k (x / 256) ++ [x mod 256] end.

Definition pad (msg : list N) : list N :=
  let l := N.of_nat (length msg) in
  let k := (119 - l mod 64) mod 64 in               (* zeros so that total = 56 mod 64 *)
  msg ++ [128] ++ repeat 0 (N.to_nat k) ++ be_bytes 8 (8 * l).

Fixpoint words (fuel : nat) (bs : list N) : list N :=
  match fuel, bs with
  | S f, a :: b :: c :: d :: r => (((a * 256 + b) * 256 + c) * 256 + d) :: words f r
  | _, _ => []
  end.

Fixpoint chunks (fuel : nat) (n : nat) (l : list N) : list (list N) :=
  match fuel with O => [] | S f => match l with [] => [] | _ => firstn n l :: chunks f n (skipn n l) end end.

(* message schedule kept as a list with newest first: w[t-1] :: w[t-2] :: ... *)
Definition next_w (ws : list N) : N :=
  rotl 1 (N.lxor (N.lxor (nth 2 ws 0) (nth 7 ws 0)) (N.lxor (nth 13 ws 0) (nth 15 ws 0))).

Fixpoint extend (n : nat) (ws : list N) : list N :=
  match n with O => ws | S k => extend k (next_w ws :: ws) end.

Definition f_k (t : nat) (b c d : N) : N * N :=
  if Nat.ltb t 20 then (N.lor (N.land b c) (N.land (not32 b) d), 1518500249)
  else if Nat.ltb t 40 then (N.lxor (N.lxor b c) d, 1859775393)
  else if Nat.ltb t 60 then (N.lor (N.lor (N.land b c) (N.land b d)) (N.land c d), 2400959708)
  else (N.lxor (N.lxor b c) d, 3395469782).

Definition st := (N * N * N * N * N)%type.
Definition round (s : st) (tw : nat * N) : st :=
  let '(a, b, c, d, e) := s in
  let '(f, k) := f_k (fst tw) b c d in
  let tmp := add32 (add32 (add32 (add32 (rotl 5 a) f) e) k) (snd tw) in
  (tmp, a, rotl 30 b, c, d).

Fixpoint index_from (i : nat) (l : list N) : list (nat * N) :=
  match l with [] => [] | x :: r => (i, x) :: index_from (S i) r end.

Definition compress (h : st) (block : list N) : st :=
  let w16 := words 16 block in
  let w80 := rev (extend 64 (rev w16)) in
  let '(a, b, c, d, e) := fold_left round (index_from 0 w80) h in
  let '(h0, h1, h2, h3, h4) := h in
  (add32 h0 a, add32 h1 b, add32 h2 c, add32 h3 d, add32 h4 e).

Definition sha1 (msg : list N) : list N :=
  let p := pad msg in
  let '(a, b, c, d, e) := fold_left compress (chunks (length p) 64 p)
      (1732584193, 4023233417, 2562383102, 271733878, 3285377520) in
  be_bytes 4 a ++ be_bytes 4 b ++ be_bytes 4 c ++ be_bytes 4 d ++ be_bytes 4 e.

(* "abc" -> a9993e36 4706816a ba3e2571 7850c26c 9cd0d89d *)
Example sha1_abc : sha1 [97; 98; 99] =
  [169;153;62;54; 71;6;129;106; 186;62;37;113; 120;80;194;108; 156;208;216;157].
Proof. vm_compute. reflexivity. Qed.
(* empty -> da39a3ee 5e6b4b0d 3255bfef 95601890 afd80709 *)
Example sha1_empty : sha1 [] =
  [218;57;163;238; 94;107;75;13; 50;85;191;239; 149;96;24;144; 175;216;7;9].
Proof. vm_compute. reflexivity. Qed.
