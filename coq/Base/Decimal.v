(* Decimal printing and parsing of integers, as Go's strconv does it for base 10:
     print_int  = strconv.FormatInt(z, 10) = strconv.Itoa          (canonical: no '+', no leading zeros)
     parse_int  = strconv.ParseInt(s, 10, 64) = strconv.Atoi on 64-bit platforms, error class erased
                  (optional single '+' or '-', then one or more ASCII digits, value within int64;
                  no underscores in base 10, no spaces)
   Lemmas: parse (print z) = z, printing is injective, printed text consists of '-' and digits. *)
From Coq Require Import List NArith ZArith Bool Lia.
From Coq Require Import ZifyN ZifyNat ZifyBool.
From Verif Require Import Base.Hex.
Import ListNotations.
Open Scope N_scope.
Ltac Zify.zify_post_hook ::= Z.div_mod_to_equations.

(* ---------- printing ---------- *)

(* digits of n, most significant first; [] for 0; fuel = any bound on the number of digits *)
Fixpoint dig10 (f : nat) (n : N) : bytes :=
  match f with
  | O => []
  | S f' => if n =? 0 then [] else dig10 f' (n / 10) ++ [48 + n mod 10]
  end.

Definition digits10 (n : N) : bytes := dig10 (N.to_nat (N.size n)) n.

Definition print_nat (n : N) : bytes := if n =? 0 then [48] else digits10 n.

Definition print_int (z : Z) : bytes :=
  match z with
  | Z0 => [48]
  | Zpos p => digits10 (Npos p)
  | Zneg p => 45 :: digits10 (Npos p)
  end.

(* ---------- parsing ---------- *)

Definition digit_val (c : N) : option N := if (48 <=? c) && (c <=? 57) then Some (c - 48) else None.

Definition parse_step (acc : option N) (c : N) : option N :=
  match acc, digit_val c with
  | Some a, Some d => Some (a * 10 + d)
  | _, _ => None
  end.

(* all characters are digits; value of the digit string (0 for the empty string) *)
Definition parse_digits (s : bytes) : option N := fold_left parse_step s (Some 0).

(* sign and magnitude, no range check; the digit string must be non-empty *)
Definition parse_sign_mag (s : bytes) : option (bool * N) :=
  let mag neg r := match r with
                   | [] => None
                   | _ :: _ => match parse_digits r with Some v => Some (neg, v) | None => None end
                   end in
  match s with
  | [] => None
  | c :: r => if c =? 43 then mag false r else if c =? 45 then mag true r else mag false s
  end.

Definition parse_Z (s : bytes) : option Z :=
  match parse_sign_mag s with
  | Some (false, v) => Some (Z.of_N v)
  | Some (true, v) => Some (- Z.of_N v)%Z
  | None => None
  end.

Definition two63 : N := 9223372036854775808.

(* ParseInt(s, 10, 64): the magnitude must fit; -2^63 is allowed *)
Definition parse_int (s : bytes) : option Z :=
  match parse_sign_mag s with
  | Some (false, v) => if v <? two63 then Some (Z.of_N v) else None
  | Some (true, v) => if v <=? two63 then Some (- Z.of_N v)%Z else None
  | None => None
  end.

Definition in_int64 (z : Z) : Prop := (- 9223372036854775808 <= z < 9223372036854775808)%Z.

(* ---------- lemmas ---------- *)

Lemma pow2_nat0 : 2 ^ N.of_nat 0 = 1.
Proof. reflexivity. Qed.

Lemma dig10_zero f : dig10 f 0 = [].
Proof. destruct f; reflexivity. Qed.

Lemma parse_digits_snoc l c :
  parse_digits (l ++ [c]) = parse_step (parse_digits l) c.
Proof. unfold parse_digits. rewrite fold_left_app. reflexivity. Qed.

Lemma digit_val_digit d : d < 10 -> digit_val (48 + d) = Some d.
Proof.
  intro H. unfold digit_val. replace ((48 <=? 48 + d) && (48 + d <=? 57)) with true by lia.
  f_equal. lia.
Qed.

Lemma parse_dig10 : forall f n, n < 2 ^ N.of_nat f -> parse_digits (dig10 f n) = Some n.
Proof.
  induction f as [|f IH]; intros n H.
  - rewrite pow2_nat0 in H. assert (n = 0) by lia. subst. reflexivity.
  - cbn [dig10]. destruct (N.eqb_spec n 0) as [->|Hn]; [reflexivity|].
    rewrite parse_digits_snoc, IH.
    + unfold parse_step. rewrite digit_val_digit by lia. f_equal. lia.
    + rewrite Nat2N.inj_succ, N.pow_succ_r' in H. lia.
Qed.

Lemma parse_digits10 n : parse_digits (digits10 n) = Some n.
Proof. unfold digits10. apply parse_dig10. rewrite N2Nat.id. apply N.size_gt. Qed.

Definition is_digit (c : N) : Prop := 48 <= c <= 57.

Lemma dig10_digits : forall f n, Forall is_digit (dig10 f n).
Proof.
  induction f as [|f IH]; intro n; [constructor|].
  cbn [dig10]. destruct (n =? 0); [constructor|].
  apply Forall_app. split; [apply IH|]. constructor; [|constructor]. unfold is_digit. lia.
Qed.

Lemma digits10_nonempty n : n <> 0 -> digits10 n <> [].
Proof.
  intros Hn E. pose proof (parse_digits10 n) as P. rewrite E in P. cbn in P. inversion P. lia.
Qed.

Lemma parse_sign_mag_digits s : s <> [] -> Forall is_digit s ->
  parse_sign_mag s = match parse_digits s with Some v => Some (false, v) | None => None end.
Proof.
  intros Hs F. destruct s as [|c r]; [contradiction|].
  inversion F as [|? ? Hc _]; subst. unfold is_digit in Hc. unfold parse_sign_mag.
  destruct (N.eqb_spec c 43); [lia|]. destruct (N.eqb_spec c 45); [lia|]. reflexivity.
Qed.

Theorem parse_Z_print z : parse_Z (print_int z) = Some z.
Proof.
  unfold parse_Z. destruct z as [|p|p]; [reflexivity| |].
  - cbn [print_int]. rewrite parse_sign_mag_digits.
    + rewrite parse_digits10. reflexivity.
    + apply digits10_nonempty. discriminate.
    + apply dig10_digits.
  - cbn [print_int]. unfold parse_sign_mag. cbn [N.eqb Pos.eqb].
    destruct (digits10 (N.pos p)) as [|c r] eqn:E.
    + exfalso. eapply digits10_nonempty; [|exact E]. discriminate.
    + rewrite <- E, parse_digits10. reflexivity.
Qed.

Theorem print_int_inj x y : print_int x = print_int y -> x = y.
Proof.
  intro E. pose proof (parse_Z_print x) as Hx. rewrite E, parse_Z_print in Hx. inversion Hx. reflexivity.
Qed.

Theorem parse_int_print z : in_int64 z -> parse_int (print_int z) = Some z.
Proof.
  intro R. pose proof (parse_Z_print z) as P. unfold parse_Z in P. unfold parse_int, in_int64, two63 in *.
  destruct (parse_sign_mag (print_int z)) as [[[|] v]|]; [| |discriminate].
  - inversion P; subst. destruct (N.leb_spec v 9223372036854775808); [reflexivity|lia].
  - inversion P; subst. destruct (N.ltb_spec v 9223372036854775808); [reflexivity|lia].
Qed.

(* what parse_int accepts is in range *)
Lemma parse_int_range s z : parse_int s = Some z -> in_int64 z.
Proof.
  unfold parse_int, in_int64, two63. destruct (parse_sign_mag s) as [[[|] v]|]; [| |discriminate].
  - destruct (N.leb_spec v 9223372036854775808); [|discriminate]. intro E; inversion E. lia.
  - destruct (N.ltb_spec v 9223372036854775808); [|discriminate]. intro E; inversion E. lia.
Qed.

(* printed text: '-' and digits only (so: no NUL, no separators) *)
Definition int_char (c : N) : Prop := c = 45 \/ is_digit c.

Lemma print_int_chars z : Forall int_char (print_int z).
Proof.
  assert (H : forall n, Forall int_char (digits10 n)).
  { intro n. eapply Forall_impl; [|apply dig10_digits]. intros c Hc. right. exact Hc. }
  destruct z as [|p|p]; cbn [print_int].
  - constructor; [right; unfold is_digit; lia|constructor].
  - apply H.
  - constructor; [left; reflexivity|apply H].
Qed.

Lemma print_int_nonempty z : print_int z <> [].
Proof.
  destruct z as [|p|p]; cbn [print_int]; try discriminate.
  apply digits10_nonempty. discriminate.
Qed.

Example decimal_vectors :
  print_int 0 = [48] /\ print_int 1234567890 = [49;50;51;52;53;54;55;56;57;48] /\
  print_int (-42) = [45;52;50] /\
  parse_int [43; 53] = Some 5%Z /\ parse_int [45; 48; 48; 55] = Some (-7)%Z /\ parse_int [43] = None /\
  parse_int [] = None /\ parse_int [32; 53] = None /\ parse_int [53; 95; 48] = None /\
  parse_int [45; 45; 53] = None /\
  parse_int [57;50;50;51;51;55;50;48;51;54;56;53;52;55;55;53;56;48;55] = Some 9223372036854775807%Z /\
  parse_int [57;50;50;51;51;55;50;48;51;54;56;53;52;55;55;53;56;48;56] = None /\
  parse_int [45;57;50;50;51;51;55;50;48;51;54;56;53;52;55;55;53;56;48;56] = Some (-9223372036854775808)%Z.
Proof. vm_compute. repeat split; reflexivity. Qed.
