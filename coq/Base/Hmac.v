(* Executable HMAC (RFC 2104) over a hash with 64-byte blocks, instantiated with SHA-256
   (RFC 4231 vectors below; correspondence with Go's crypto/hmac in C20). *)
From Coq Require Import List NArith Lia.
From Verif Require Import Base.Sha256.
Import ListNotations.
Open Scope N_scope.

Section Hmac.
  Variable hash : list N -> list N.

  (* keys longer than the block are hashed first; then padded with zeros to the block size *)
  Definition hmac_key (key : list N) : list N :=
    let k := if Nat.ltb 64 (length key) then hash key else key in
    k ++ repeat 0 (64 - length k).

  Definition hmac (key msg : list N) : list N :=
    let k := hmac_key key in
    hash (map (fun b => N.lxor b 92) k ++ hash (map (fun b => N.lxor b 54) k ++ msg)).
End Hmac.

Definition hmac_sha256 : list N -> list N -> list N := hmac sha256.

Lemma hmac_sha256_length key msg : length (hmac_sha256 key msg) = 32%nat.
Proof. apply sha256_length. Qed.

(* RFC 4231 test case 1: key = 20 x 0b, data = "Hi There" *)
Example hmac_rfc4231_1 : hmac_sha256 (repeat 11 20) [72;105;32;84;104;101;114;101] =
  [176;52;76;97;216;219;56;83;92;168;175;206;175;11;241;43;136;29;194;0;201;131;61;167;38;233;55;108;46;50;207;247].
Proof. vm_compute. reflexivity. Qed.

(* test case 2: key = "Jefe", data = "what do ya want for nothing?" *)
Example hmac_rfc4231_2 : hmac_sha256 [74;101;102;101]
  [119;104;97;116;32;100;111;32;121;97;32;119;97;110;116;32;102;111;114;32;110;111;116;104;105;110;103;63] =
  [91;220;193;70;191;96;117;78;106;4;36;38;8;149;117;199;90;0;63;8;157;39;57;131;157;236;88;185;100;236;56;67].
Proof. vm_compute. reflexivity. Qed.

(* test case 6: key = 131 x aa (longer than a block), data = "Test Using Larger Than Block-Size Key - Hash Key First" *)
Example hmac_rfc4231_6 : hmac_sha256 (repeat 170 131)
  [84;101;115;116;32;85;115;105;110;103;32;76;97;114;103;101;114;32;84;104;97;110;32;66;108;111;99;107;45;83;105;122;101;32;75;101;121;32;45;32;72;97;115;104;32;75;101;121;32;70;105;114;115;116] =
  [96;228;49;89;30;224;182;127;13;138;38;170;203;245;183;127;142;11;198;33;55;40;197;20;5;70;4;15;14;227;127;84].
Proof. vm_compute. reflexivity. Qed.
