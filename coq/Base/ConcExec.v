(* Runs of Base/Conc.v seen as sequential executions.

   When the threads of a concurrent program are given as lists of LABELS with a semantics
   [sem : L -> action], every schedule executes some list of (thread index, label) pairs one after the
   other.  This file exposes that list ([lrun]) and proves, for every schedule:
     - [run_lrun]    the Conc.run result is the sequential execution ([exec]) of those labels,
     - [lrun_order]  the labels executed by thread t, followed by what is left of thread t, are thread
                     t's program (program order is respected, nothing is executed twice),
     - [lrun_perm]   executed labels plus remaining labels are a permutation of the whole program.
   So facts that need program order or counting can be proved by induction on a label list. *)
From Coq Require Import List Arith Bool Lia Permutation.
From Verif Require Import Base.Conc.
Import ListNotations.

(* [a] is a subsequence of [b] (order kept, elements may be skipped) *)
Inductive subseq {A : Type} : list A -> list A -> Prop :=
| subseq_nil : subseq [] []
| subseq_skip : forall a x b, subseq a b -> subseq a (x :: b)
| subseq_take : forall a x b, subseq a b -> subseq (x :: a) (x :: b).

Lemma subseq_refl {A} (l : list A) : subseq l l.
Proof. induction l; constructor; assumption. Qed.

Lemma subseq_nil_l {A} (l : list A) : subseq [] l.
Proof. induction l; constructor; assumption. Qed.

Lemma subseq_app {A} (a b c d : list A) : subseq a b -> subseq c d -> subseq (a ++ c) (b ++ d).
Proof.
  induction 1; intros Hcd; simpl.
  - assumption.
  - apply subseq_skip. auto.
  - apply subseq_take. auto.
Qed.

Lemma subseq_in {A} (a b : list A) x : subseq a b -> In x a -> In x b.
Proof. induction 1; simpl; intuition. Qed.

Lemma subseq_app_r {A} (a b c : list A) : subseq a b -> subseq a (b ++ c).
Proof.
  intros H. rewrite <- (app_nil_r a). apply subseq_app; [assumption|apply subseq_nil_l].
Qed.

Lemma subseq_map {A B} (f : A -> B) a b : subseq a b -> subseq (map f a) (map f b).
Proof.
  induction 1; simpl; [constructor|apply subseq_skip|apply subseq_take]; assumption.
Qed.

Lemma subseq_filter {A} (f : A -> bool) a b : subseq a b -> subseq (filter f a) (filter f b).
Proof.
  induction 1; simpl; [constructor| |].
  - destruct (f x); [apply subseq_skip|]; assumption.
  - destruct (f x); [apply subseq_take|]; assumption.
Qed.

Lemma subseq_NoDup {A} (a b : list A) : subseq a b -> NoDup b -> NoDup a.
Proof.
  induction 1; intros Hnd; [constructor| |].
  - inversion Hnd; auto.
  - inversion Hnd; subst. constructor; [|auto].
    intros Hin. eapply subseq_in in Hin; eauto.
Qed.

Section Exec.
  Context {S E L : Type} (sem : L -> @action S E).

  (* sequential execution of a list of labels *)
  Fixpoint exec (ls : list L) (s : S) : S * list E :=
    match ls with
    | [] => (s, [])
    | l :: r =>
        let '(s1, e1) := sem l s in
        let '(s2, e2) := exec r s1 in
        (s2, e1 ++ e2)
    end.

  (* which (thread, label) pairs a schedule executes, and what is left of every thread *)
  Fixpoint lrun (lts : list (list L)) (sched : list nat) : list (nat * L) * list (list L) :=
    match sched with
    | [] => ([], lts)
    | i :: sched' =>
        match pick lts i with
        | None => lrun lts sched'
        | Some (l, lts') => let '(ex, rem) := lrun lts' sched' in ((i, l) :: ex, rem)
        end
    end.

  Lemma pick_map (lts : list (list L)) : forall i,
    pick (map (map sem) lts) i =
    match pick lts i with
    | Some (l, lts') => Some (sem l, map (map sem) lts')
    | None => None
    end.
  Proof.
    induction lts as [|t rest IH]; intros i.
    - destruct i; reflexivity.
    - destruct i as [|i].
      + destruct t; reflexivity.
      + simpl. destruct t as [|a t].
        * simpl. rewrite IH. destruct (pick rest i) as [[l lts']|]; reflexivity.
        * simpl. rewrite IH. destruct (pick rest i) as [[l lts']|]; reflexivity.
  Qed.

  Theorem run_lrun : forall sched lts s,
    run (map (map sem) lts) sched s =
    (fst (exec (map snd (fst (lrun lts sched))) s),
     snd (exec (map snd (fst (lrun lts sched))) s),
     map (map sem) (snd (lrun lts sched))).
  Proof.
    induction sched as [|i sched IH]; intros lts s; [reflexivity|].
    cbn [run lrun]. rewrite pick_map.
    destruct (pick lts i) as [[l lts']|]; [|apply IH].
    destruct (lrun lts' sched) as [ex rem] eqn:Hl. cbn [fst snd map exec].
    destruct (sem l s) as [s1 e1].
    rewrite (IH lts' s1), Hl. cbn [fst snd].
    destruct (exec (map snd ex) s1) as [s2 e2]. reflexivity.
  Qed.

  Lemma pick_nth (lts : list (list L)) : forall i l lts',
    pick lts i = Some (l, lts') ->
    nth i lts [] = l :: nth i lts' [] /\ forall j, j <> i -> nth j lts' [] = nth j lts [].
  Proof.
    induction lts as [|t rest IH]; intros i l lts' H.
    - destruct i; discriminate.
    - destruct i as [|i].
      + destruct t as [|a t]; simpl in H; [discriminate|]. inversion H; subst. split; [reflexivity|].
        intros [|j] Hj; [congruence|reflexivity].
      + assert (H' : match pick rest i with
                     | Some (a0, rest') => Some (a0, t :: rest')
                     | None => None end = Some (l, lts')) by (destruct t; exact H).
        destruct (pick rest i) as [[a0 rest']|] eqn:Hp; [|discriminate].
        inversion H'; subst. destruct (IH _ _ _ Hp) as [H1 H2]. split; [exact H1|].
        intros [|j] Hj; [reflexivity|]. simpl. apply H2. lia.
  Qed.

  (* program order: what thread t executed, then what it has left, is its program *)
  Theorem lrun_order : forall sched lts t,
    map snd (filter (fun x => fst x =? t) (fst (lrun lts sched))) ++ nth t (snd (lrun lts sched)) []
    = nth t lts [].
  Proof.
    induction sched as [|i sched IH]; intros lts t; [reflexivity|].
    cbn [lrun]. destruct (pick lts i) as [[l lts']|] eqn:Hp; [|apply IH].
    specialize (IH lts' t). destruct (lrun lts' sched) as [ex rem]. cbn [fst snd] in *.
    destruct (pick_nth _ _ _ _ Hp) as [H1 H2].
    cbn [filter fst]. destruct (Nat.eqb_spec i t) as [->|Hne].
    - cbn [map snd app]. rewrite IH. symmetry. exact H1.
    - rewrite IH. apply H2. congruence.
  Qed.

  Lemma pick_perm (lts : list (list L)) : forall i l lts',
    pick lts i = Some (l, lts') -> Permutation (concat lts) (l :: concat lts').
  Proof.
    induction lts as [|t rest IH]; intros i l lts' H.
    - destruct i; discriminate.
    - destruct i as [|i].
      + destruct t as [|a t]; simpl in H; [discriminate|]. inversion H; subst. reflexivity.
      + assert (H' : match pick rest i with
                     | Some (a0, rest') => Some (a0, t :: rest')
                     | None => None end = Some (l, lts')) by (destruct t; exact H).
        destruct (pick rest i) as [[a0 rest']|] eqn:Hp; [|discriminate].
        inversion H'; subst. simpl.
        rewrite (IH _ _ _ Hp). symmetry. apply Permutation_middle.
  Qed.

  (* nothing is executed twice, nothing is invented *)
  Theorem lrun_perm : forall sched lts,
    Permutation (map snd (fst (lrun lts sched)) ++ concat (snd (lrun lts sched))) (concat lts).
  Proof.
    induction sched as [|i sched IH]; intros lts; [reflexivity|].
    cbn [lrun]. destruct (pick lts i) as [[l lts']|] eqn:Hp; [|apply IH].
    specialize (IH lts'). destruct (lrun lts' sched) as [ex rem]. cbn [fst snd map app] in *.
    rewrite (pick_perm _ _ _ _ Hp). constructor. exact IH.
  Qed.

  Lemma exec_app (a b : list L) s :
    exec (a ++ b) s =
    (fst (exec b (fst (exec a s))), snd (exec a s) ++ snd (exec b (fst (exec a s)))).
  Proof.
    revert s. induction a as [|l a IH]; intros s.
    - simpl. destruct (exec b s); reflexivity.
    - simpl. destruct (sem l s) as [s1 e1]. rewrite IH.
      destruct (exec a s1) as [s2 e2]. simpl.
      destruct (exec b s2) as [s3 e3]. simpl. now rewrite app_assoc.
  Qed.

  (* an invariant of (state, trace) that every label preserves holds after executing any label list *)
  Lemma exec_inv (P : S -> list E -> Prop) (ls : list L) :
    (forall l, In l ls -> forall s evs, P s evs -> P (fst (sem l s)) (evs ++ snd (sem l s))) ->
    forall s evs0, P s evs0 -> P (fst (exec ls s)) (evs0 ++ snd (exec ls s)).
  Proof.
    induction ls as [|l ls IH]; intros Hstep s evs0 HP.
    - simpl. now rewrite app_nil_r.
    - simpl. pose proof (Hstep l (or_introl eq_refl) s evs0 HP) as H1.
      destruct (sem l s) as [s1 e1]. simpl in H1.
      specialize (IH (fun l' Hl' => Hstep l' (or_intror Hl')) s1 (evs0 ++ e1) H1).
      destruct (exec ls s1) as [s2 e2]. simpl in *. now rewrite app_assoc.
  Qed.
End Exec.

Print Assumptions run_lrun.
Print Assumptions lrun_order.
Print Assumptions lrun_perm.
