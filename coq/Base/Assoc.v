(* Finite maps with keys in N as association lists kept sorted by key (so that two maps with the
   same bindings built in different orders are the same list), with the lookup lemmas.
   [aget]/[aset]/[adel] never need the sortedness for their lookup laws; [ext_eqb] decides
   extensional equality. *)
From Coq Require Import List NArith Bool.
Import ListNotations.
Open Scope N_scope.

Section Assoc.
  Variable V : Type.
  Definition amap := list (N * V).

  Fixpoint aget (k : N) (m : amap) : option V :=
    match m with
    | [] => None
    | (k', v) :: r => if k' =? k then Some v else aget k r
    end.
  Fixpoint aset (k : N) (v : V) (m : amap) : amap :=
    match m with
    | [] => [(k, v)]
    | (k', v') :: r =>
      if k =? k' then (k, v) :: r
      else if k <? k' then (k, v) :: m
      else (k', v') :: aset k v r
    end.
  (* removes every binding of k *)
  Fixpoint adel (k : N) (m : amap) : amap :=
    match m with
    | [] => []
    | (k', v') :: r => if k' =? k then adel k r else (k', v') :: adel k r
    end.

  Lemma aget_aset_same k v m : aget k (aset k v m) = Some v.
  Proof.
    induction m as [|[k' v'] m IHm]; cbn [aset aget].
    - rewrite N.eqb_refl. reflexivity.
    - destruct (k =? k') eqn:E1.
      + cbn [aget]. rewrite N.eqb_refl. reflexivity.
      + destruct (k <? k'); cbn [aget].
        * rewrite N.eqb_refl. reflexivity.
        * rewrite N.eqb_sym, E1. exact IHm.
  Qed.

  Lemma aget_aset_other k k' v m : k <> k' -> aget k (aset k' v m) = aget k m.
  Proof.
    intros D. induction m as [|[k2 v2] m IH]; cbn [aset aget].
    - destruct (N.eqb_spec k' k); [congruence|reflexivity].
    - destruct (N.eqb_spec k' k2) as [->|D2].
      + cbn [aget]. destruct (N.eqb_spec k2 k); [congruence|reflexivity].
      + destruct (k' <? k2); cbn [aget].
        * destruct (N.eqb_spec k' k); [congruence|reflexivity].
        * rewrite IH. reflexivity.
  Qed.

  Lemma aget_adel_same k m : aget k (adel k m) = None.
  Proof.
    induction m as [|[k2 v2] m IH]; [reflexivity|]. cbn [adel].
    destruct (N.eqb_spec k2 k); [exact IH|]. cbn [aget]. destruct (N.eqb_spec k2 k); [congruence|exact IH].
  Qed.

  Lemma aget_adel_other k k' m : k <> k' -> aget k (adel k' m) = aget k m.
  Proof.
    intros D. induction m as [|[k2 v2] m IH]; [reflexivity|]. cbn [adel aget].
    destruct (N.eqb_spec k2 k') as [->|D2].
    - destruct (N.eqb_spec k' k); [congruence|exact IH].
    - cbn [aget]. rewrite IH. reflexivity.
  Qed.

  Lemma aget_in k v m : aget k m = Some v -> In k (map fst m).
  Proof.
    induction m as [|[k2 v2] m IH]; [discriminate|]. cbn [aget map fst].
    destruct (N.eqb_spec k2 k); [left; assumption|]. intros H. right. apply IH. exact H.
  Qed.

  (* extensional equality, decided on the keys that occur *)
  Variable veqb : V -> V -> bool.
  Definition oeqb (a b : option V) : bool :=
    match a, b with
    | Some x, Some y => veqb x y
    | None, None => true
    | _, _ => false
    end.
  Definition ext_eqb (a b : amap) : bool :=
    forallb (fun k => oeqb (aget k a) (aget k b)) (map fst a ++ map fst b).

  Hypothesis veqb_eq : forall x y, veqb x y = true <-> x = y.

  Lemma oeqb_eq a b : oeqb a b = true <-> a = b.
  Proof.
    destruct a, b; cbn; try (split; [discriminate|discriminate]); try tauto.
    rewrite veqb_eq. split; [intros ->; reflexivity|intros H; inversion H; reflexivity].
  Qed.

  Lemma ext_eqb_spec a b : ext_eqb a b = true <-> (forall k, aget k a = aget k b).
  Proof.
    unfold ext_eqb. rewrite forallb_forall. split.
    - intros H k. destruct (aget k a) as [x|] eqn:A.
      + apply oeqb_eq. rewrite <- A. apply H. apply in_or_app. left. eapply aget_in. exact A.
      + destruct (aget k b) as [y|] eqn:B; [|reflexivity].
        assert (I : In k (map fst a ++ map fst b)) by (apply in_or_app; right; eapply aget_in; exact B).
        apply H in I. rewrite A, B in I. discriminate I.
    - intros H k _. apply oeqb_eq. apply H.
  Qed.
End Assoc.

Arguments aget {V}. Arguments aset {V}. Arguments adel {V}. Arguments ext_eqb {V}. Arguments oeqb {V}.
