#!/bin/bash
# usage: tools/commit_hooks.sh cXX [cYY ...] — commits the add-only verif_export_cXX.go hook files in /repo, one commit per property
cd /repo
for c in "$@"; do
  files=$(git status --short | grep '^??' | awk '{print $2}' | grep "verif_export_${c}\.go$")
  [ -z "$files" ] && { echo "$c: no untracked hook files"; continue; }
  for f in $files; do head -1 $f | grep -q '^//go:build verif' || { echo "$f lacks build tag"; exit 1; }; done
  git add $files
  git commit -q -m "verif hooks: ${c^^} export wrappers (build tag verif, add-only)" && echo "$c: $(git rev-parse --short HEAD) $files"
done
cd /verif
python3 - <<'PY'
import subprocess, json
out = subprocess.run(["git","-C","/repo","log","--format=%H %s"],capture_output=True,text=True).stdout
hs=[l.split()[0] for l in out.splitlines() if "verif hooks:" in l]
json.dump(list(reversed(hs)), open("/verif/meta/hook_commits.json","w"), indent=1)
print(len(hs),"hook commits recorded")
PY
