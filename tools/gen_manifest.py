#!/usr/bin/env python3
"""Regenerates /verif/MANIFEST.json from meta/CXX.json (one file per claimed property)."""
import glob, json, os
ROOT = os.path.dirname(os.path.dirname(os.path.abspath(__file__)))
props = [json.loads(l) for l in open(os.path.join(ROOT, "properties.jsonl"))]
metas = {}
for f in sorted(glob.glob(os.path.join(ROOT, "meta", "C*.json"))):
    m = json.load(open(f))
    metas[m["id"]] = m
na_reasons = {}
p = os.path.join(ROOT, "meta", "not_applicable.json")
if os.path.exists(p):
    na_reasons = json.load(open(p))
claimed = set(open(os.path.join(ROOT, "meta", "claimed.txt")).read().split())
checks, na = [], []
for pr in props:
    pid = pr["id"]
    m = metas.get(pid)
    if not m or pid not in claimed:
        na.append({"property_id": pid, "reason": na_reasons.get(pid, "check not built yet (DESIGN.md section 12 gives the construction order); not claimed until its check exists and is green on the unchanged tree")})
        continue
    checks.append({
        "property_id": pid,
        "quick_cmd": "./check %s quick" % pid,
        "thorough_cmd": "./check %s thorough" % pid,
        "evidence_file": "/verif/evidence/%s.json" % pid,
        "replay_cmd_template": "./check %s --replay {path}" % pid,
        "engine": "coq-models+go-harness",
        "level_claimed": {"category": m.get("level", "proof"), "text": m["level_text"], "design_ref": m.get("design_ref", "DESIGN.md section 8 " + pid)},
        "level_note": m["level_note"],
        "technique": m["technique"],
    })
hooks_commits = []
hp = os.path.join(ROOT, "meta", "hook_commits.json")
if os.path.exists(hp):
    hooks_commits = json.load(open(hp))
man = {
    "version": 1,
    "setup_cmd": "./check --setup",
    "hooks": {
        "guard": "verif",
        "enable": "go build -tags verif (the harness module replaces go.minekube.com/gate by /repo)",
        "baseline_off_cmd": "cd /repo && go test -mod=mod -json -vet=off -count=1 -timeout 25m ./...",
        "source_commits": hooks_commits,
        "add_only": True,
    },
    "engines": [
        {"name": "coq-models", "path": "coq", "serves_properties": sorted(metas), "kind_free_text": "Coq 8.16.1 development: executable Gallina models (Model/), proofs (Proofs/), property theorems (Properties/CXX.v, exact + Print Assumptions), per-case judges (Check/CXX.v) evaluated with vm_compute on the implementation's observed outputs"},
        {"name": "go-harness", "path": "harness", "serves_properties": sorted(metas), "kind_free_text": "Go module built against /repo's working tree with -tags verif; generates inputs from VERIF_SEED, runs the real code, writes Coq case files"},
        {"name": "translator", "path": "translator", "serves_properties": sorted(k for k, m in metas.items() if m.get("translators")), "kind_free_text": "go/parser based translators regenerating coq/Gen/*.v from /repo's source on every run"},
    ],
    "checks": checks,
    "not_applicable": na,
    "notes": "One driver: ./check CXX quick|thorough|--replay FILE. See DESIGN.md.",
}
json.dump(man, open(os.path.join(ROOT, "MANIFEST.json"), "w"), indent=1)
print("MANIFEST.json: %d checks, %d not claimed" % (len(checks), len(na)))
