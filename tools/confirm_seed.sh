#!/bin/bash
# usage: tools/confirm_seed.sh CXX [/tmp/wt-CXX] [name]
# Confirms an independently written breaking change (patch.diff + demo) in a scratch copy of /repo:
#   builds, full suite passes (same failures as the unmodified tree), demo fails with / passes without the change,
# then runs ./check CXX quick against the changed copy. Stores everything under /verif/seeded/<name>/.
set -u
PID=$1; WT=${2:-/tmp/wt-$PID}; NAME=${3:-$PID}
export GOFLAGS=-mod=mod GOPROXY=off
S=/verif/seeded/$NAME; mkdir -p $S
cp $WT/patch.diff $S/patch.diff
cp $WT/demo_test.go.txt $S/demo_test.go.txt
cp $WT/meta.json $S/agent_meta.json 2>/dev/null
DEMO_PKG=$(python3 -c "import json;print(json.load(open('$S/agent_meta.json'))['demo_package'])")
DEMO_CMD=$(python3 -c "import json;print(json.load(open('$S/agent_meta.json'))['demo_cmd'])")
M=/tmp/seed-$NAME; rm -rf $M; rsync -a --exclude .git /repo/ $M/
DEMO_CMD=${DEMO_CMD//$WT/$M}
cd $M
# drop other people's uncommitted hook files? no: the checks need them. Demo goes into its package.
DEMO_DIR=${DEMO_PKG%% *}; DEMO_DIR=${DEMO_DIR#./}; DEMO_DIR=${DEMO_DIR#go.minekube.com/gate/}; DEMO_DIR=${DEMO_DIR%/}
cp $S/demo_test.go.txt $M/$DEMO_DIR/zz_demo_test.go
echo "== demo WITHOUT change" > $S/confirm.log
(cd $M && eval "$DEMO_CMD") >> $S/confirm.log 2>&1; D0=$?
patch -p1 -s < $S/patch.diff >> $S/confirm.log 2>&1; P=$?
echo "== build WITH change" >> $S/confirm.log
go build ./... >> $S/confirm.log 2>&1; B=$?
echo "== demo WITH change" >> $S/confirm.log
(cd $M && eval "$DEMO_CMD") >> $S/confirm.log 2>&1; D1=$?
rm -f $M/$DEMO_DIR/zz_demo_test.go
echo "== full suite WITH change (demo removed)" >> $S/confirm.log
go test -vet=off -count=1 -timeout 25m ./... 2>&1 | grep -E "^(FAIL|---|panic)" | sort -u > $S/suite_fail.txt
cat $S/suite_fail.txt >> $S/confirm.log
# re-run failing packages alone once: tests that fail only under load are flakes, not effects of the change
NEWFAIL=0
for pkg in $(grep -E "^FAIL\s" $S/suite_fail.txt | awk '{print $2}' | grep -v "geyser/managed$\|^go.minekube.com/gate$"); do
  echo "== re-run $pkg alone" >> $S/confirm.log
  go test -vet=off -count=1 $pkg >> $S/confirm.log 2>&1 || NEWFAIL=$((NEWFAIL+1))
done
echo "== check against changed copy" >> $S/confirm.log
cd /verif
VERIF_REPO=$M ./check $PID quick > $S/check_out.txt 2>&1; C=$?
cat $S/check_out.txt >> $S/confirm.log
for r in $(grep -o 'replays/[^ ]*' $S/check_out.txt | head -2); do cp $r $S/ 2>/dev/null; done
python3 - <<PY
import json
m=json.load(open('$S/agent_meta.json'))
import os
old=json.load(open('$S/meta.json')) if os.path.exists('$S/meta.json') else {}
out={"property":"$PID","breaks":m.get("summary"),"needs":m.get("needs"),"files_changed":m.get("files_changed"),
 "demo_package":m.get("demo_package"),"demo_cmd":m.get("demo_cmd"),
 "confirmed":{"patch_applies":$P==0,"builds":$B==0,"demo_passes_without_change":$D0==0,"demo_fails_with_change":$D1!=0,
   "new_suite_failures":$NEWFAIL,"ran":"tools/confirm_seed.sh: rsync copy of /repo, demo before/after patch, go build ./..., go test -vet=off -count=1 ./... (failures compared with the unmodified tree's two offline failures), VERIF_REPO=<copy> ./check $PID quick"},
 "check_detects":$C==1,"check_output":open('$S/check_out.txt').read()[-1500:]}
for k in ("first_run_missed","detected_after_strengthening"):
    if k in old: out[k]=old[k]
if old and not old.get("check_detects") and out["check_detects"]: out["first_run_missed"]=True
json.dump(out,open('$S/meta.json','w'),indent=1)
print(json.dumps({k:out[k] for k in ("property","confirmed","check_detects")}))
PY
rm -rf $M
