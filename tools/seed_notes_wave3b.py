import json,os
notes={
 "C01-3":"op histories on the real netmc.Writer with 0–3 buffered, unflushed writes in front of each SetCompressionThreshold/EnableEncryption; history model wire_ops/read_ops; theorem C01_history_roundtrip",
 "C04-3":"AvailableCommands family: random brigodier graphs with redirects into the tree, to root, to detached subtrees and to a second root; Coq reference decoder of the node table + canonical unfolding (Model/AvailCmds.v)",
 "C11-3":"lock-facts obligation C11_register_check_insert_atomic (check and insert in one muP.Lock section, regenerated from source) + registration-burst hunts: 16 barrier-released goroutines with case-variant names / colliding UUIDs, up to 1500 rounds",
 "C13-3":"consumers that return errors (CFail) in model, theorems and generator: fail on last / middle / all; judge clause p_completes (completions = 1 once all answered)",
 "C34-3":"concurrent first-contact waves (burst+3..9 callers per fresh /24 or /64, parked behind the cache mutex via hook or spin barrier); per-group bound predicate of C34_bucket_bound",
 "C40-3":"applied GameProfile observed through the real onGameProfile handler (hook) under every BackendFloodgate / username-format configuration; CProfile judge (RFC 4122 v5 + model equality)",
 "C32-3":"reload family through the real ApplyLiveConfig: every exported field of lite/config.Route (by reflection, incl. Fallback fields) changed alone between two pings; Coq computes whether the flattened route lists differ and demands reset + generation bump",
 "C41-3":"byte-identical duplicate envelopes (adjacent, separated, 1-byte, empty, three copies) and any field-12 occurrence repeated verbatim at a later position",
}
for k,v in notes.items():
    f=f"/verif/seeded/{k}/meta.json"
    if not os.path.exists(f) or v is None: continue
    m=json.load(open(f))
    if m.get("check_detects") and m.get("first_run_missed"):
        m["detected_after_strengthening"]=v; json.dump(m,open(f,"w"),indent=1); print("noted",k)
    else: print("skip",k,m.get("check_detects"),m.get("first_run_missed"))
