#!/usr/bin/env python3
"""Regenerates the generated sections of DESIGN.md (between BEGIN/END GENERATED markers) from
known_findings.jsonl, seeded/*/meta.json and meta/*.json."""
import json, glob, os, re, subprocess
ROOT = os.path.dirname(os.path.dirname(os.path.abspath(__file__)))
def esc(s): return str(s).replace("|", "\\|").replace("\n", " ")
out = []
out.append("### 15.0 As built: one line per property (generated from meta/ and the last evidence files)\n")
out.append("| id | model files | property theorems | statements in cone | cases judged (quick) | quick wall s | translators | level |\n|---|---|---|---|---|---|---|---|")
for f in sorted(glob.glob(os.path.join(ROOT, "meta", "C*.json"))):
    m = json.load(open(f)); pid = m["id"]
    ev = {}
    ep = os.path.join(ROOT, "evidence", pid + ".json")
    if os.path.exists(ep): ev = json.load(open(ep))
    cov = ev.get("coverage", {})
    out.append("| %s | %s | %d | %s | %s | %s | %s | %s |" % (pid, esc(", ".join(x.replace("Model/","").replace("Base/","Base/") for x in m.get("models", []))[:80]),
        len(cov.get("theorems", [])), cov.get("obligations", "?"), cov.get("programs", "?"), ev.get("wall_s", "?"), ",".join(m.get("translators", [])) or "–", m.get("level", "proof")))
out.append("")
out.append("### 15.1 Findings (genuine defects of minekube/gate found by the models and reproduced on the real code)\n")
out.append("`known_findings.jsonl` is the authoritative list; `fixed` entries name the `fix:` commit in /repo and suppress nothing.\n")
out.append("| id | status | commit | what fails |\n|---|---|---|---|")
ents = [json.loads(l) for l in open(os.path.join(ROOT, "known_findings.jsonl")) if l.strip()]
ents.sort(key=lambda e: (e["property"], int(e["k"])))
for e in ents:
    out.append("| %s | %s | %s | %s |" % (e["id"], e["kind"], e.get("commit", "–"), esc(e["what"][:260])))
nf = sum(1 for e in ents if e["kind"] == "fixed")
out.append("\n%d findings recorded, %d repaired by `fix:` commits, %d kept as known findings.\n" % (len(ents), nf, len(ents) - nf))
out.append("### 15.2 Independently seeded breaking changes and which checks catch them\n")
out.append("Each change was written by a fresh sub-agent that saw only the property text and a scratch worktree; it was kept after "
           "`tools/confirm_seed.sh` confirmed in a scratch copy that it builds, that the existing suite still passes, that its demonstration "
           "fails with the change and passes without it, and then `VERIF_REPO=<copy> ./check CXX quick` was run against it.\n")
out.append("| seed | property | what the change does | needs | detected by `./check` |\n|---|---|---|---|---|")
for d in sorted(glob.glob(os.path.join(ROOT, "seeded", "*"))):
    mp = os.path.join(d, "meta.json")
    if not os.path.exists(mp): continue
    m = json.load(open(mp))
    det = "yes" if m.get("check_detects") else "NO (see 15.3)"
    if m.get("detected_after_strengthening"): det = "yes, after strengthening: " + m["detected_after_strengthening"]
    out.append("| %s | %s | %s | %s | %s |" % (os.path.basename(d), m["property"], esc((m.get("breaks") or "")[:300]), esc((m.get("needs") or "")[:200]), det))
missed = []
for d in sorted(glob.glob(os.path.join(ROOT, "seeded", "*"))):
    mp = os.path.join(d, "meta.json")
    if os.path.exists(mp):
        m = json.load(open(mp))
        if m.get("first_run_missed"):
            missed.append((os.path.basename(d), m))
out.append("\n### 15.2b Seeds missed by the first version of a check, and the strengthening that made it detect them\n")
out.append("| seed | detected now | what was added to the check |\n|---|---|---|")
for name, m in missed:
    out.append("| %s | %s | %s |" % (name, "yes" if m.get("check_detects") else "NO", esc(m.get("detected_after_strengthening", "–"))))
tot = len(glob.glob(os.path.join(ROOT, "seeded", "*", "meta.json")))
det = sum(1 for f in glob.glob(os.path.join(ROOT, "seeded", "*", "meta.json")) if json.load(open(f)).get("check_detects"))
out.append("\n%d seeded changes in total (three rounds of independent breaker agents: one change per property, a second different-in-nature change per property, and a third change per property, again different in site and mechanism from the first two — written first for the 17 properties whose checks had shown the most blind spots, then for the other 27); %d detected, %d of them only after the check was strengthened.\n" % (tot, det, len(missed)))
txt = "\n".join(out) + "\n"
p = os.path.join(ROOT, "DESIGN.md")
s = open(p).read()
b, e = "<!-- BEGIN GENERATED -->", "<!-- END GENERATED -->"
if b not in s:
    s += "\n--------------------------------------------------------------------------------------\n\n## 15. Findings, repairs and seeded changes\n\n" + b + "\n" + e + "\n"
s = s[:s.index(b) + len(b)] + "\n" + txt + s[s.index(e):]
open(p, "w").write(s)
print("DESIGN.md tables regenerated: %d findings, %d seeds" % (len(ents), len(glob.glob(os.path.join(ROOT, 'seeded', '*', 'meta.json')))))
