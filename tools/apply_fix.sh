#!/bin/bash
# usage: tools/apply_fix.sh <diff-name-without-.diff> "<commit subject after 'fix: '>" <PROP:k> [<PROP:k> ...]
# Applies /verif/fixes/<name>.diff to /repo as one "fix:" commit after the unedited suite passed with it in a scratch copy,
# then marks the listed known_findings entries as fixed (with the commit hash).
set -e
NAME=$1; SUBJECT=$2; shift 2
export GOFLAGS=-mod=mod GOPROXY=off
D=/verif/fixes/$NAME.diff
M=/tmp/fix-$NAME; rm -rf $M; rsync -a --exclude .git /repo/ $M/
(cd $M && patch -p1 -s < $D && go build ./... )
PKGS=$(grep '^+++ ' $D | sed 's#+++ b/##; s#/[^/]*$##' | sort -u | sed 's#^#./#')
echo "== package tests in scratch copy: $PKGS"
(cd $M && go test -vet=off -count=1 $PKGS 2>&1 | grep -v "^ok\|no test files" | head -20; exit ${PIPESTATUS[0]}) || { echo "package tests failed"; exit 1; }
if [ "${FULL_SUITE:-1}" = 1 ]; then
  echo "== full suite in scratch copy"
  (cd $M && go test -vet=off -count=1 -timeout 25m ./... 2>&1 | grep -E "^(FAIL|--- FAIL)" | grep -v "TestGeyserDownloadAPI\|geyser/managed\|^FAIL$" | sort -u) > /tmp/fix-$NAME.fail || true
  if [ -s /tmp/fix-$NAME.fail ]; then
    # re-run failing packages alone once (load flakes)
    for pkg in $(grep -E "^FAIL\s" /tmp/fix-$NAME.fail | awk '{print $2}'); do (cd $M && go test -vet=off -count=1 $pkg) || { echo "suite failure in $pkg"; exit 1; }; done
  fi
fi
rm -rf $M
cd /repo && patch -p1 -s < $D && git add -A -- $(grep '^+++ ' $D | sed 's#+++ b/##') && git commit -q -m "fix: $SUBJECT" && H=$(git rev-parse --short HEAD) && echo "committed $H"
cd /verif && python3 - "$H" "$@" <<'PY'
import sys, json
h = sys.argv[1]; keys = set(sys.argv[2:])
out = []
for line in open('known_findings.jsonl'):
    s = line.strip()
    if not s: continue
    e = json.loads(s)
    if "%s:%s" % (e["property"], e["k"]) in keys:
        e["kind"] = "fixed"; e["commit"] = h
        e["fixed"] = "fixed: property=%s %s %s" % (e["property"], h, e["what"][:160])
        print("marked fixed:", e["id"])
    out.append(json.dumps(e))
open('known_findings.jsonl', 'w').write("\n".join(out) + "\n")
PY
