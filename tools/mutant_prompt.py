#!/usr/bin/env python3
"""prints the prompt for an independent breaker agent for property CXX (only the property text, no /verif content)"""
import json, sys
pid = sys.argv[1]
wt = sys.argv[2]
for l in open('/verif/properties.jsonl'):
    p = json.loads(l)
    if p['id'] == pid:
        break
prev = ""
import os
mp = f"/verif/seeded/{pid}/meta.json"
if len(sys.argv) > 3 and sys.argv[3] in ("wave2", "wave3") and os.path.exists(mp):
    b = json.load(open(mp)).get("breaks") or ""
    prev = f"\n\nAn earlier, independently written change for this property already exists; it did the following: {b[:700]}\n"
    mp2 = f"/verif/seeded/{pid}-2/meta.json"
    if sys.argv[3] == "wave3" and os.path.exists(mp2):
        b2 = json.load(open(mp2)).get("breaks") or ""
        prev += f"A second one did the following: {b2[:700]}\n"
    prev += "Yours must be DIFFERENT IN NATURE from these: a different code site or a different mechanism (do not produce a variation of an existing change). Look for parts of the property statement that those changes did not touch.\n"
print(f"""You are testing how robust a Go project's behaviour is against subtle regressions. The project is minekube/gate (a Minecraft Java/Bedrock reverse proxy written in Go). You have your own scratch git worktree of it at {wt} (work ONLY there; never touch /repo or /verif, and do not read anything under /verif).

Here is a semantic property that the unmodified code is supposed to satisfy:

  Title: {p['title']}
  Statement: {p['statement']}
  Quantified over: {p['quantifier']['text']}
  Code anchors (where the behaviour lives): {json.dumps(p['anchors'].get('files', []))}

{prev}Your task: produce ONE small, realistic change to the project's non-test Go source (the kind of regression a refactoring, an optimisation or a well-meant bug fix could introduce) that BREAKS this property, while (a) the project still compiles and (b) the existing test suite still passes. Prefer a change that needs something specific to manifest — a particular interleaving, a multi-step sequence of operations, an unusual or boundary input, a specific protocol version, or two cooperating sites that each look fine alone — rather than one that ordinary use would expose at once. Do not edit any existing *_test.go file and do not touch build tags or go.mod.

Also produce a demonstration: a NEW Go test file (e.g. `zz_demo_test.go` in the relevant package; it may use unexported identifiers) — or a small program — that FAILS with your change applied and PASSES on the unmodified code, and that demonstrates the property violation (not merely that the code differs).

How to work (offline sandbox, no network): `cd {wt}`; Go env per shell call: `export GOFLAGS=-mod=mod GOPROXY=off`; run package tests with `go test -vet=off -count=1 ./pkg/...path...`. Verify all of the following yourself before finishing:
 1. with the change: `go build ./...` succeeds;
 2. with the change: the existing tests of the packages you touched and their dependants pass (`go test -vet=off -count=1 ./pkg/... 2>&1 | grep -v '^ok\\|no test files'` should show no failures other than the two network-dependent ones that fail on the unmodified tree too: `TestGeyserDownloadAPI` and the root package's `TestVelocitySync…`); run this full command only once, at the end (it takes about 2 minutes and a lot of CPU);
 3. the demonstration fails with the change and passes without it (to check both ways: `git diff -- . ':!*_test.go' > patch.diff; git apply -R patch.diff` removes your change, `git apply patch.diff` restores it; NEVER use `git stash`, `git commit`, `git checkout <branch>` or `git worktree` — the repository metadata is shared with other people's worktrees).

Deliver, inside the worktree root: `patch.diff` (output of `git diff` for the source change only, without the demo file), the demo file saved ALSO as `demo_test.go.txt` in the worktree root together with a one-line note of which package directory it belongs in, and `meta.json` with keys: property ("{pid}"), summary (what the change does), needs (what is required for the violation to manifest), files_changed, demo_package, demo_cmd (the exact go test command that runs the demo), verified (what you ran and what you observed for 1–3). Leave the source change applied in the worktree. In your final answer, summarise the change, why it breaks the property, and why the existing tests do not notice.""")
